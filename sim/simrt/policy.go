package simrt

import (
	"hash/fnv"
	"math/rand"
	"strings"
	"time"
)

// Policy takes every scheduling decision of a run.
type Policy interface {
	// Decide returns the index in st.Enabled of the goroutine to release, or -1 and a duration to let
	// simulated time pass (d<=0: until the next event).
	Decide(st *State) (pick int, d time.Duration)
	// SelectPref returns the case a goroutine being released into a select polls first.
	SelectPref(st *State, p *parked) int
}

// PolicySpec is the serialisable description of a seeded policy.
type PolicySpec struct {
	Kind string `json:"kind"` // fifo | random | pct | starve | bounded | holdat
	Seed int64  `json:"seed"`
	// L is the length of the adversarial prefix in decisions; afterwards the run is fair (FIFO, time
	// passes only when nothing can run, environment actions fire when nothing else can run).
	L int64 `json:"l"`
	// PTime is the per-mille probability of letting time pass although goroutines are ready.
	PTime int `json:"ptime,omitempty"`
	// PSelect is the per-mille probability of a non-default first select case.
	PSelect int `json:"pselect,omitempty"`
	// PEnv is the per-mille probability per decision of firing a pending lazy environment action.
	PEnv int `json:"penv,omitempty"`
	// pct
	Depth int `json:"depth,omitempty"`
	// starve
	Victim   string `json:"victim,omitempty"`    // substring of role@site
	WindowUS int64  `json:"window_us,omitempty"` // simulated microseconds
	Each     bool   `json:"each,omitempty"`      // a new window for every new arrival of a victim
	Shuffle  bool   `json:"shuffle,omitempty"`   // starve: the goroutines that are not held run in drawn, not FIFO, order
	// bounded
	Preemptions int `json:"preemptions,omitempty"`
	// holdat: at each listed decision number one of the goroutines that could run next is drawn and
	// held back - for WindowUS of simulated time, or with a zero window until nothing else can run.
	// The others run in FIFO or (Shuffle) drawn order. A single-delay sweep over the points a run
	// actually passes, where starve needs to guess a site by name.
	HoldAt []int64 `json:"hold_at,omitempty"`
	// HoldState > 0: additionally hold the goroutine that makes the HoldState-th arrival, counted over the
	// run, at a synchronisation point right after it wrote a step state (instrumentation rule T8): the
	// claim "I am waiting / finished" is made, what justifies it is delayed.
	HoldState int `json:"hold_state,omitempty"`
}

var timeSteps = []time.Duration{100 * time.Microsecond, time.Millisecond, 5 * time.Millisecond, 20 * time.Millisecond, 100 * time.Millisecond, time.Second, 10 * time.Second}

// NewPolicy builds the policy a spec describes.
func NewPolicy(sp PolicySpec) Policy {
	b := &basePolicy{sp: sp, rng: rand.New(rand.NewSource(sp.Seed))}
	switch sp.Kind {
	case "pct":
		b.prio = map[string]uint64{}
		n := sp.Depth
		for i := 0; i < n; i++ {
			l := sp.L
			if l < 1 {
				l = 1
			}
			b.change = append(b.change, b.rng.Int63n(l))
		}
	case "bounded":
		for i := 0; i < sp.Preemptions; i++ {
			l := sp.L
			if l < 1 {
				l = 1
			}
			b.change = append(b.change, b.rng.Int63n(l))
		}
	case "starve":
		b.windows = map[string]time.Duration{}
	case "holdat":
		b.held = map[string]time.Duration{}
		b.seenState = map[string]bool{}
	}
	return b
}

type basePolicy struct {
	held      map[string]time.Duration // holdat: goroutine name -> start of its hold
	holdIdx   int
	seenState map[string]bool // holdat/HoldState: arrivals after a state write already counted
	sp        PolicySpec
	rng       *rand.Rand
	prio      map[string]uint64
	low       uint64
	change    []int64
	windows   map[string]time.Duration // victim key -> window start
	started   bool
	t0        time.Duration
}

// fairPick: oldest non-lazy goroutine; a lazy one only when nothing else can run.
func fairPick(st *State) int {
	for i, p := range st.Enabled {
		if !p.lazy || (p.notBefore > 0 && st.Seq >= p.notBefore) {
			return i
		}
	}
	if len(st.Enabled) > 0 {
		return 0
	}
	return -1
}

func (b *basePolicy) adversarial(st *State) bool { return st.Seq < b.sp.L }

func (b *basePolicy) Decide(st *State) (int, time.Duration) {
	if len(st.Enabled) == 0 {
		return -1, 0
	}
	if !b.adversarial(st) || b.sp.Kind == "fifo" || b.sp.Kind == "" {
		return fairPick(st), 0
	}
	// candidates: non-lazy goroutines, plus lazy ones that are due or drawn
	var cand []int
	for i, p := range st.Enabled {
		if !p.lazy || (p.notBefore > 0 && st.Seq >= p.notBefore) {
			cand = append(cand, i)
		} else if b.sp.PEnv > 0 && b.rng.Intn(1000) < b.sp.PEnv {
			cand = append(cand, i)
		}
	}
	if len(cand) == 0 {
		return fairPick(st), 0
	}
	if b.sp.PTime > 0 && b.rng.Intn(1000) < b.sp.PTime {
		return -1, timeSteps[b.rng.Intn(len(timeSteps))]
	}
	switch b.sp.Kind {
	case "random":
		return cand[b.rng.Intn(len(cand))], 0
	case "pct":
		for _, c := range b.change {
			if c == st.Seq && st.Cur >= 0 {
				b.low++
				b.prio[st.Enabled[st.Cur].g.Name] = b.low // lowest priorities are small numbers
			}
		}
		best, bestP := cand[0], uint64(0)
		for _, i := range cand {
			name := st.Enabled[i].g.Name
			pr, ok := b.prio[name]
			if !ok {
				h := fnv.New64a()
				h.Write([]byte(name))
				var sb [8]byte
				for k := 0; k < 8; k++ {
					sb[k] = byte(b.sp.Seed >> (8 * k))
				}
				h.Write(sb[:])
				pr = h.Sum64() | (1 << 63)
				b.prio[name] = pr
			}
			if pr >= bestP {
				best, bestP = i, pr
			}
		}
		return best, 0
	case "bounded":
		for _, c := range b.change {
			if c == st.Seq {
				return cand[b.rng.Intn(len(cand))], 0
			}
		}
		if st.Cur >= 0 {
			return st.Cur, 0
		}
		return fairPick(st), 0
	case "holdat":
		for b.holdIdx < len(b.sp.HoldAt) && st.Seq >= b.sp.HoldAt[b.holdIdx] {
			b.held[st.Enabled[cand[b.rng.Intn(len(cand))]].g.Name] = st.Now
			b.holdIdx++
		}
		if b.sp.HoldState > 0 {
			for _, list := range [][]*parked{st.Enabled, st.Blocked} {
				for _, p := range list {
					if !p.afterState {
						continue
					}
					k := p.g.Name + "#" + itoa(p.order)
					if b.seenState[k] {
						continue
					}
					b.seenState[k] = true
					if len(b.seenState) == b.sp.HoldState {
						b.held[p.g.Name] = st.Now
					}
				}
			}
		}
		w := time.Duration(b.sp.WindowUS) * time.Microsecond
		var free, kept []int
		var wait time.Duration
		for _, i := range cand {
			name := st.Enabled[i].g.Name
			start, isHeld := b.held[name]
			switch {
			case !isHeld:
				free = append(free, i)
			case w == 0:
				kept = append(kept, i)
			default:
				if rem := start + w - st.Now; rem > 0 {
					if wait == 0 || rem < wait {
						wait = rem
					}
				} else {
					delete(b.held, name)
					free = append(free, i)
				}
			}
		}
		if len(free) > 0 {
			if b.sp.Shuffle {
				return free[b.rng.Intn(len(free))], 0
			}
			return free[0], 0
		}
		if len(kept) > 0 {
			delete(b.held, st.Enabled[kept[0]].g.Name)
			return kept[0], 0
		}
		return -1, wait
	case "starve":
		w := time.Duration(b.sp.WindowUS) * time.Microsecond
		var free []int
		var wait time.Duration
		for _, i := range cand {
			p := st.Enabled[i]
			key := roleOf(p.g.Name) + "@" + p.site
			if !strings.Contains(key, b.sp.Victim) {
				free = append(free, i)
				continue
			}
			wkey := "once"
			if b.sp.Each {
				wkey = p.g.Name + "@" + p.site + "#" + itoa(p.order)
			}
			start, ok := b.windows[wkey]
			if !ok {
				start = st.Now
				b.windows[wkey] = start
			}
			if rem := start + w - st.Now; rem > 0 {
				if wait == 0 || rem < wait {
					wait = rem
				}
				continue
			}
			free = append(free, i)
		}
		if len(free) > 0 {
			// run the others in FIFO order, or in drawn order
			if b.sp.Shuffle {
				return free[b.rng.Intn(len(free))], 0
			}
			return free[0], 0
		}
		return -1, wait
	}
	return fairPick(st), 0
}

func itoa(u uint64) string {
	if u == 0 {
		return "0"
	}
	var b [20]byte
	i := len(b)
	for u > 0 {
		i--
		b[i] = byte('0' + u%10)
		u /= 10
	}
	return string(b[i:])
}

func (b *basePolicy) SelectPref(st *State, p *parked) int {
	if !b.adversarial(st) || b.sp.PSelect == 0 {
		return 0
	}
	if b.rng.Intn(1000) < b.sp.PSelect {
		return b.rng.Intn(p.nsel)
	}
	return 0
}

// ReplayPolicy follows a recorded decision list by name. Where the listed option is not available
// it falls back to the fair default and counts a divergence.
type ReplayPolicy struct {
	List []Decision
	i    int
	Sim  func() *Sim
	pref int
}

// Decide implements Policy.
func (r *ReplayPolicy) Decide(st *State) (int, time.Duration) {
	for r.i < len(r.List) {
		d := r.List[r.i]
		if strings.HasPrefix(d.Pick, "T+") {
			dur, err := time.ParseDuration(d.Pick[2:])
			r.i++
			if err != nil {
				continue
			}
			if len(st.Enabled) == 0 {
				// an idle wait: the scheduler does that by itself
				return -1, 0
			}
			return -1, dur
		}
		if len(st.Enabled) == 0 {
			return -1, 0
		}
		for i, p := range st.Enabled {
			if p.Key() == d.Pick {
				r.i++
				r.pref = d.Pref
				return i, 0
			}
		}
		// listed goroutine is not enabled here: skip the entry
		r.i++
		if s := r.Sim(); s != nil {
			s.Stats.Divergences++
		}
	}
	r.pref = 0
	if len(st.Enabled) == 0 {
		return -1, 0
	}
	return fairPick(st), 0
}

// SelectPref implements Policy.
func (r *ReplayPolicy) SelectPref(st *State, p *parked) int {
	if r.pref < p.nsel {
		return r.pref
	}
	return 0
}
