// Package simrt is the runtime the instrumented engine calls into (DESIGN.md §2.2).
//
// Outside an active simulation every entry point is a transparent pass-through. Inside one
// (between Start and Finish, within a testing/synctest bubble) every lock, channel operation,
// select, atomic, goroutine start and cancel call of the engine parks the calling goroutine under
// its stable name until the scheduler releases it; exactly one parked goroutine is released per
// decision, and every choice comes from the run's Policy, so one (case, policy) pair is one
// exactly repeatable execution.
package simrt

import (
	"fmt"
	"hash/fnv"
	"math/rand"
	"os"
	"reflect"
	"runtime"
	"sort"
	"strings"
	"sync"
	"sync/atomic"
	"testing/synctest"
	"time"
)

// ---------------------------------------------------------------------------------------------
// goroutine identity

func goid() uint64 {
	var buf [64]byte
	n := runtime.Stack(buf[:], false)
	var id uint64
	for _, c := range buf[10:n] { // "goroutine 123 ["
		if c < '0' || c > '9' {
			break
		}
		id = id*10 + uint64(c-'0')
	}
	return id
}

// G is a named goroutine known to the simulator.
type G struct {
	Name     string
	Engine   bool // started by instrumented engine code (simrt.Go)
	children map[string]int
	iters    uint64
	LastSite string
	// LastState / LastStateSite: the last value this goroutine wrote to a step state field (rule T8)
	LastState     string
	LastStateSite string
	stateFresh    bool // a state was written since the goroutine last parked
	sim           *Sim
}

var gmu sync.Mutex
var gtab = map[uint64]*G{}

func lookup() *G {
	id := goid()
	gmu.Lock()
	g := gtab[id]
	gmu.Unlock()
	return g
}

// Enter names the calling goroutine for the current simulation (environment goroutines: clients,
// plugin handlers). It returns a function that forgets the name again.
func Enter(name string) func() {
	id := goid()
	g := &G{Name: name, children: map[string]int{}, sim: cur.Load()}
	gmu.Lock()
	gtab[id] = g
	gmu.Unlock()
	return func() {
		gmu.Lock()
		delete(gtab, id)
		gmu.Unlock()
	}
}

// ---------------------------------------------------------------------------------------------
// simulation state

type parked struct {
	g         *G
	site      string
	mu        *sync.Mutex
	ch        chan struct{}
	order     uint64 // park order (FIFO fairness)
	nsel      int    // >0: parked at a select with nsel cases; the scheduler fills pref
	pref      int
	onQuiesce func() // run once by the scheduler at the next quiescent point, before anything is released
	lazy      bool   // environment action: released only when the policy asks for it or nothing else can run
	notBefore int64
	// afterState: the goroutine wrote a step state (rule T8) since it last parked - whatever it does next
	// is what the claim it has just made waits for
	afterState bool
}

// Key is the stable identity of a parked goroutine at a site.
func (p *parked) Key() string { return p.g.Name + "@" + p.site }

// PanicRec records a panic captured in an engine or client goroutine.
type PanicRec struct {
	G     string `json:"g"`
	Value string `json:"value"`
	Stack string `json:"stack"`
}

// Decision is one scheduler decision, recorded by name so that a replay needs no PRNG.
type Decision struct {
	N    int64  `json:"n"`
	Pick string `json:"pick"` // "name@site" or "T+<duration>"
	Pref int    `json:"pref,omitempty"`
	Opts int    `json:"opts,omitempty"`
	At   int64  `json:"at_us,omitempty"` // simulated microseconds since run start
}

// Sim is one simulated run.
type Sim struct {
	mu       sync.Mutex
	parked   map[string]*parked // by goroutine name
	held     map[*sync.Mutex]string
	order    uint64
	seq      atomic.Int64
	wake     chan struct{}
	draining atomic.Bool
	policy   Policy
	mapSeed  uint64
	mapMode  int
	t0       time.Time
	lastRun  string

	Journal       []Decision
	Panics        []PanicRec
	live          map[string]*G // engine goroutines alive
	Stats         Stats
	harness       []string // harness errors (exit 2 material)
	MaxDecisions  int64
	sitesHit      map[string]int
	ctlHash       map[uint64]struct{}
	RecordJournal bool
	// Watch, if set, makes the scheduler record where every other goroutine is whenever it releases a
	// goroutine at a site for which Watch returns true (used to classify what was stalled when the
	// engine gave up).
	Watch        func(site string) bool
	Snapshots    []Snapshot
	ReadFileHook func(path string) (override bool, data []byte, err error)
}

// Snapshot is the position of every simulated goroutine at one decision.
type Snapshot struct {
	Seq    int64    `json:"seq"`
	Site   string   `json:"site"`
	G      string   `json:"g"`
	Others []string `json:"others"` // "name@site" (parked) or "name after@site" (blocked natively)
	// States: goroutine name -> "state@site" of the last step state it wrote (parked goroutines only)
	States map[string]string `json:"states,omitempty"`
}

// Stats are per-run counters for the evidence file.
type Stats struct {
	Decisions     int64
	TimePasses    int64
	VoluntaryTime int64
	Preemptions   int64
	SelectChoices int64
	MapOrders     int64
	Divergences   int64 // replay: listed option was not enabled
	SimTime       time.Duration
}

var cur atomic.Pointer[Sim]

// Map order modes.
const (
	MapSorted = iota
	MapReversed
	MapRandom
)

// Start begins a simulation. It must be called from the root goroutine of a synctest bubble.
func Start(p Policy, mapMode int, mapSeed uint64) *Sim {
	s := &Sim{
		parked:       map[string]*parked{},
		held:         map[*sync.Mutex]string{},
		wake:         make(chan struct{}, 1),
		policy:       p,
		mapMode:      mapMode,
		mapSeed:      mapSeed,
		t0:           time.Now(),
		live:         map[string]*G{},
		sitesHit:     map[string]int{},
		ctlHash:      map[uint64]struct{}{},
		MaxDecisions: 400000,
	}
	cur.Store(s)
	return s
}

// SetMapOrder changes the map iteration mode and seed for what follows.
func (s *Sim) SetMapOrder(mode int, seed uint64) { s.mapMode, s.mapSeed = mode, seed }

// Current returns the active simulation or nil.
func Current() *Sim { return cur.Load() }

// Seq is the current decision sequence number; events are stamped with it.
func (s *Sim) Seq() int64 {
	if s == nil {
		return 0
	}
	return s.seq.Load()
}

// Now is the simulated time since Start.
func (s *Sim) Now() time.Duration {
	if s == nil {
		return 0
	}
	return time.Since(s.t0)
}

// Notify wakes the scheduler if it is letting time pass.
func (s *Sim) Notify() {
	if s == nil {
		return
	}
	select {
	case s.wake <- struct{}{}:
	default:
	}
}

func (s *Sim) harnessErr(f string, a ...any) {
	s.mu.Lock()
	s.harness = append(s.harness, fmt.Sprintf(f, a...))
	s.mu.Unlock()
	s.Notify()
}

// HarnessErrors returns problems of the simulator itself (never a property violation).
func (s *Sim) HarnessErrors() []string {
	s.mu.Lock()
	defer s.mu.Unlock()
	return append([]string(nil), s.harness...)
}

func (s *Sim) park(site string, m *sync.Mutex, nsel int, lazy bool, notBefore int64) *parked {
	g := lookup()
	if g == nil || g.sim != s {
		// A goroutine the simulator does not know (or one left over from an earlier run): it must not
		// take part in scheduling. Letting it through keeps the run going; it is reported.
		if g == nil {
			s.harnessErr("unnamed goroutine reached sync point %s", site)
		}
		return nil
	}
	g.LastSite = site
	p := &parked{g: g, site: site, mu: m, ch: make(chan struct{}), nsel: nsel, lazy: lazy, notBefore: notBefore, afterState: g.stateFresh}
	g.stateFresh = false
	s.mu.Lock()
	if old := s.parked[g.Name]; old != nil {
		s.harness = append(s.harness, "goroutine parked twice: "+g.Name)
	}
	s.parked[g.Name] = p
	s.sitesHit[site]++
	s.mu.Unlock()
	s.Notify()
	<-p.ch
	return p
}

func active() *Sim {
	s := cur.Load()
	if s == nil || s.draining.Load() {
		return nil
	}
	return s
}

// ---------------------------------------------------------------------------------------------
// entry points used by instrumented code

// RacePerturb, when non-zero, makes pass-through sync points call runtime.Gosched at a
// pseudo-random subset of (goroutine, site) pairs. Used by the race mode only; it takes no lock
// and touches no shared memory so it adds no happens-before edge.
var RacePerturb uint64

func perturb(site string) {
	if RacePerturb == 0 {
		return
	}
	h := fnv.New64a()
	h.Write([]byte(site))
	x := h.Sum64() ^ RacePerturb ^ (goid() * 0x9e3779b97f4a7c15)
	x ^= x >> 29
	if x%3 == 0 {
		runtime.Gosched()
	}
}

// Yield is a scheduling point before an inter-goroutine communication.
func Yield(site string) {
	if s := active(); s != nil {
		s.park(site, nil, 0, false, 0)
		return
	}
	perturb(site)
}

// EnvPoint is a scheduling point of an environment goroutine (client, plugin, deployer). A lazy
// point is released only when the policy decides so, when decision number notBefore has been
// reached, or when nothing else can run.
func EnvPoint(site string, lazy bool, notBefore int64) {
	if s := active(); s != nil {
		s.park(site, nil, 0, lazy, notBefore)
	}
}

// EnvQuiesce parks the calling environment goroutine and has the scheduler run fn at the next
// quiescent point, before any goroutine is released: fn observes a state in which every goroutine
// has either finished or is durably blocked (used to sample "what is still alive when the call
// returned" without racing against goroutines that are just exiting).
// NoteState records that the calling goroutine has just written `state` to a step state field
// (instrumentation rule T8). Not a scheduling point.
func NoteState(site string, state string) {
	if active() == nil {
		return
	}
	if g := lookup(); g != nil {
		g.LastState, g.LastStateSite = state, site
		g.stateFresh = true
	}
}

func EnvQuiesce(site string, fn func()) {
	s := active()
	if s == nil {
		fn()
		return
	}
	g := lookup()
	if g == nil || g.sim != s {
		fn()
		return
	}
	g.LastSite = site
	p := &parked{g: g, site: site, ch: make(chan struct{}), onQuiesce: fn}
	s.mu.Lock()
	s.parked[g.Name] = p
	s.sitesHit[site]++
	s.mu.Unlock()
	s.Notify()
	<-p.ch
}

// Lock is a modelled sync.Mutex.Lock.
func Lock(site string, m *sync.Mutex) {
	s := active()
	if s == nil {
		if ds := cur.Load(); ds != nil && ds.draining.Load() {
			drainLock(m)
			return
		}
		perturb(site)
		m.Lock()
		return
	}
	p := s.park(site, m, 0, false, 0)
	if p == nil || s.draining.Load() {
		drainLock(m)
		return
	}
	if !m.TryLock() {
		s.harnessErr("modelled mutex busy at %s for %s", site, p.g.Name)
		m.Lock()
	}
	s.mu.Lock()
	s.held[m] = p.g.Name
	s.mu.Unlock()
}

// drainLock is Lock while a finished simulation is being torn down. A goroutine blocked in
// sync.Mutex.Lock is not durably blocked for synctest, so a mutex that is never released (an engine
// deadlock the oracles have already recorded) would keep the bubble from ever ending. The lock is
// polled on the fake clock instead and, if it never becomes free, the goroutine blocks for good.
func drainLock(m *sync.Mutex) {
	for i := 0; i < 2000; i++ {
		if m.TryLock() {
			return
		}
		time.Sleep(time.Millisecond)
	}
	select {}
}

// Unlock is a modelled sync.Mutex.Unlock.
func Unlock(site string, m *sync.Mutex) {
	if s := cur.Load(); s != nil {
		s.mu.Lock()
		delete(s.held, m)
		s.mu.Unlock()
	}
	m.Unlock()
}

// Go starts a named engine goroutine that is parked at birth.
func Go(site string, f func()) {
	s := active()
	if s == nil {
		perturb(site)
		go f()
		return
	}
	parent := lookup()
	pname := "anon"
	gmu.Lock()
	if parent != nil {
		parent.children[site]++
		pname = fmt.Sprintf("%s/%s#%d", parent.Name, shortSite(site), parent.children[site])
	}
	gmu.Unlock()
	if parent == nil {
		s.harnessErr("go statement at %s executed by an unnamed goroutine", site)
	}
	g := &G{Name: pname, Engine: true, children: map[string]int{}, sim: s}
	s.mu.Lock()
	s.live[g.Name] = g
	s.mu.Unlock()
	go func() {
		id := goid()
		gmu.Lock()
		gtab[id] = g
		gmu.Unlock()
		defer func() {
			gmu.Lock()
			delete(gtab, id)
			gmu.Unlock()
			s.mu.Lock()
			delete(s.live, g.Name)
			s.mu.Unlock()
			if r := recover(); r != nil {
				s.recordPanic(g.Name, r)
			}
			s.Notify()
		}()
		if !s.draining.Load() {
			s.park("go:"+site, nil, 0, false, 0)
		}
		f()
	}()
}

func (s *Sim) recordPanic(name string, r any) {
	buf := make([]byte, 16384)
	buf = buf[:runtime.Stack(buf, false)]
	s.mu.Lock()
	s.Panics = append(s.Panics, PanicRec{G: name, Value: fmt.Sprint(r), Stack: string(buf)})
	s.mu.Unlock()
	s.Notify()
}

// Protect runs f on the calling (named) goroutine and records a panic instead of propagating it.
func (s *Sim) Protect(name string, f func()) {
	if s == nil {
		f()
		return
	}
	defer func() {
		if r := recover(); r != nil {
			s.recordPanic(name, r)
		}
	}()
	f()
}

func shortSite(site string) string {
	// "internal/step/plugin/provider.go:730:2" -> "plugin/provider.go:730"
	parts := strings.Split(site, ":")
	file := parts[0]
	segs := strings.Split(file, "/")
	if len(segs) > 2 {
		segs = segs[len(segs)-2:]
	}
	out := strings.Join(segs, "/")
	if len(parts) > 1 {
		out += ":" + parts[1]
	}
	return out
}

// ---- select ----

// Case is one communication clause of a rewritten select.
type Case struct {
	dir  reflect.SelectDir
	ch   reflect.Value
	send reflect.Value
	recv func(v reflect.Value, ok bool)
}

// Zero returns the zero value of a channel's element type.
func Zero[T any](ch <-chan T) T { var z T; return z }

// Conv converts v to the element type of ch exactly as a send statement would.
func Conv[T any](ch chan<- T, v T) T { return v }

// Recv builds a receive case that stores into dst/ok.
func Recv[T any](ch <-chan T, dst *T, ok *bool) Case {
	return Case{dir: reflect.SelectRecv, ch: reflect.ValueOf(ch), recv: func(v reflect.Value, k bool) {
		if k {
			reflect.ValueOf(dst).Elem().Set(v)
		} else {
			var z T
			*dst = z
		}
		*ok = k
	}}
}

// RecvDiscard builds a receive case whose value is dropped.
func RecvDiscard[T any](ch <-chan T) Case {
	return Case{dir: reflect.SelectRecv, ch: reflect.ValueOf(ch)}
}

// Send builds a send case.
func Send[T any](ch chan<- T, v T) Case {
	return Case{dir: reflect.SelectSend, ch: reflect.ValueOf(ch), send: reflect.ValueOf(&v).Elem()}
}

// Select is the seeded select. It returns the index of the chosen case, or len(cases) for default.
func Select(site string, hasDefault bool, cases ...Case) int {
	all := make([]reflect.SelectCase, len(cases), len(cases)+1)
	for i, c := range cases {
		all[i] = reflect.SelectCase{Dir: c.dir, Chan: c.ch, Send: c.send}
	}
	s := active()
	var p *parked
	if s != nil {
		p = s.park(site, nil, len(cases), false, 0)
	} else {
		perturb(site)
	}
	if p == nil || s.draining.Load() {
		if hasDefault {
			all = append(all, reflect.SelectCase{Dir: reflect.SelectDefault})
		}
		idx, v, ok := reflect.Select(all)
		if idx < len(cases) && cases[idx].recv != nil {
			cases[idx].recv(v, ok)
		}
		return idx
	}
	n := len(cases)
	for k := 0; k < n; k++ {
		i := (p.pref + k) % n
		if !all[i].Chan.IsValid() || all[i].Chan.IsNil() {
			continue
		}
		sc := []reflect.SelectCase{all[i], {Dir: reflect.SelectDefault}}
		if idx, v, ok := reflect.Select(sc); idx == 0 {
			if cases[i].recv != nil {
				cases[i].recv(v, ok)
			}
			return i
		}
	}
	if hasDefault {
		return n
	}
	idx, v, ok := reflect.Select(all) // durably blocking inside a bubble
	if cases[idx].recv != nil {
		cases[idx].recv(v, ok)
	}
	return idx
}

// ---- maps ----

// MapIter iterates a map in an order chosen by the simulation.
type MapIter[K comparable, V any] struct {
	m    map[K]V
	keys []K
	i    int
	k    K
	v    V
}

func orderSeed(site string) (mode int, seed uint64) {
	s := active()
	if s == nil {
		return MapSorted, 0
	}
	if s.mapMode != MapRandom {
		return s.mapMode, 0
	}
	g := lookup()
	h := fnv.New64a()
	if g != nil && g.sim == s {
		g.iters++
		fmt.Fprintf(h, "%s|%d|", g.Name, g.iters)
	}
	fmt.Fprintf(h, "%s|%d", site, s.mapSeed)
	atomic.AddInt64(&s.Stats.MapOrders, 1)
	return MapRandom, h.Sum64() | 1
}

func permute[T any](xs []T, mode int, seed uint64) {
	switch mode {
	case MapReversed:
		for i, j := 0, len(xs)-1; i < j; i, j = i+1, j-1 {
			xs[i], xs[j] = xs[j], xs[i]
		}
	case MapRandom:
		r := rand.New(rand.NewSource(int64(seed)))
		r.Shuffle(len(xs), func(i, j int) { xs[i], xs[j] = xs[j], xs[i] })
	}
}

// Iter returns an iterator over m.
func Iter[M ~map[K]V, K comparable, V any](site string, m M) *MapIter[K, V] {
	ks := make([]K, 0, len(m))
	for k := range m {
		ks = append(ks, k)
	}
	if len(ks) > 1 {
		sort.Slice(ks, func(a, b int) bool { return fmt.Sprint(ks[a]) < fmt.Sprint(ks[b]) })
		mode, seed := orderSeed(site)
		permute(ks, mode, seed)
	}
	return &MapIter[K, V]{m: m, keys: ks}
}

// Next advances; entries deleted meanwhile are skipped, as the language does.
func (it *MapIter[K, V]) Next() bool {
	for it.i < len(it.keys) {
		k := it.keys[it.i]
		it.i++
		if v, ok := it.m[k]; ok {
			it.k, it.v = k, v
			return true
		}
	}
	return false
}

// Key returns the current key.
func (it *MapIter[K, V]) Key() K { return it.k }

// Val returns the current value.
func (it *MapIter[K, V]) Val() V { return it.v }

// MapKeys is reflect.Value.MapKeys in a simulation-chosen order.
func MapKeys(site string, v reflect.Value) []reflect.Value {
	ks := v.MapKeys()
	if len(ks) > 1 {
		sort.Slice(ks, func(a, b int) bool { return fmt.Sprint(ks[a].Interface()) < fmt.Sprint(ks[b].Interface()) })
		mode, seed := orderSeed(site)
		permute(ks, mode, seed)
	}
	return ks
}

// ReadFile is the file-read fault seam of package loadfile.
func ReadFile(real func(string) ([]byte, error), site string, path string) ([]byte, error) {
	if s := cur.Load(); s != nil && s.ReadFileHook != nil {
		if over, data, err := s.ReadFileHook(path); over {
			return data, err
		}
	}
	return real(path)
}

// ---------------------------------------------------------------------------------------------
// scheduler

// Outcome says why Run returned.
type Outcome int

const (
	// Completed: the until() condition became true.
	Completed Outcome = iota
	// Stuck: nothing can run and no timer brought anything back for the idle limit.
	Stuck
	// Panicked: an engine or client goroutine panicked.
	Panicked
	// Exhausted: the decision budget was used up.
	Exhausted
	// HarnessFailure: the simulator detected a problem of its own.
	HarnessFailure
)

func (o Outcome) String() string {
	return [...]string{"completed", "stuck", "panicked", "exhausted", "harness-failure"}[o]
}

// IdleLimit is how long (simulated) the scheduler waits with nothing runnable before it calls the
// run stuck.
const IdleLimit = 10 * time.Minute

// Run drives the simulation until until() holds at a quiescent point.
func (s *Sim) Run(until func() bool) Outcome {
	for {
		synctest.Wait()
		s.mu.Lock()
		npanic, nharness := len(s.Panics), len(s.harness)
		s.mu.Unlock()
		if nharness > 0 {
			return HarnessFailure
		}
		if npanic > 0 {
			return Panicked
		}
		s.mu.Lock()
		var calls []func()
		var names []string
		for name, p := range s.parked {
			if p.onQuiesce != nil {
				names = append(names, name)
			}
		}
		sort.Strings(names)
		for _, name := range names {
			calls = append(calls, s.parked[name].onQuiesce)
			s.parked[name].onQuiesce = nil
		}
		s.mu.Unlock()
		for _, f := range calls {
			f()
		}
		if until() {
			return Completed
		}
		if s.Stats.Decisions >= s.MaxDecisions {
			return Exhausted
		}
		st := s.snapshot()
		pick, d := s.policy.Decide(st)
		if pick < 0 {
			// let simulated time pass
			voluntary := len(st.Enabled) > 0
			if d <= 0 || !voluntary {
				d = IdleLimit
			}
			s.Stats.TimePasses++
			if voluntary {
				s.Stats.VoluntaryTime++
			}
			if s.RecordJournal {
				s.Journal = append(s.Journal, Decision{N: s.seq.Load(), Pick: "T+" + d.String(), Opts: len(st.Enabled), At: int64(s.Now() / time.Microsecond)})
			}
			woken := s.passTime(d)
			if !woken && !voluntary && d >= IdleLimit {
				return Stuck
			}
			continue
		}
		p := st.Enabled[pick]
		if p.nsel > 1 {
			p.pref = s.policy.SelectPref(st, p)
			if p.pref != 0 {
				s.Stats.SelectChoices++
			}
		}
		if st.Cur >= 0 && pick != st.Cur {
			s.Stats.Preemptions++
		}
		s.mu.Lock()
		delete(s.parked, p.g.Name)
		if s.Watch != nil && s.Watch(p.site) && len(s.Snapshots) < 64 {
			sn := Snapshot{Seq: s.seq.Load() + 1, Site: p.site, G: p.g.Name}
			for _, q := range s.parked {
				sn.Others = append(sn.Others, q.g.Name+"@"+q.site)
				if q.g.LastState != "" {
					if sn.States == nil {
						sn.States = map[string]string{}
					}
					sn.States[q.g.Name] = q.g.LastState + "@" + q.g.LastStateSite
				}
			}
			for _, g := range s.live {
				if s.parked[g.Name] == nil && g.Name != p.g.Name {
					sn.Others = append(sn.Others, g.Name+" after@"+g.LastSite)
				}
			}
			sort.Strings(sn.Others)
			s.Snapshots = append(s.Snapshots, sn)
		}
		s.mu.Unlock()
		s.lastRun = p.g.Name
		n := s.seq.Add(1)
		s.Stats.Decisions++
		if s.RecordJournal {
			s.Journal = append(s.Journal, Decision{N: n, Pick: p.Key(), Pref: p.pref, Opts: len(st.Enabled), At: int64(s.Now() / time.Microsecond)})
		}
		close(p.ch)
	}
}

func (s *Sim) passTime(d time.Duration) bool {
	select {
	case <-s.wake:
	default:
	}
	t := time.NewTimer(d)
	defer t.Stop()
	select {
	case <-s.wake:
		return true
	case <-t.C:
		return false
	}
}

// State is what a policy sees at a decision.
type State struct {
	Seq      int64
	Now      time.Duration
	Enabled  []*parked // FIFO order (oldest first)
	Blocked  []*parked // waiting for a held mutex
	Cur      int       // index in Enabled of the goroutine released last, or -1
	OnlyLazy bool      // every enabled goroutine is a lazy environment action
}

// Keys lists the enabled options by name.
func (st *State) Keys() []string {
	out := make([]string, len(st.Enabled))
	for i, p := range st.Enabled {
		out[i] = p.Key()
	}
	return out
}

func (s *Sim) snapshot() *State {
	s.mu.Lock()
	defer s.mu.Unlock()
	st := &State{Seq: s.seq.Load(), Now: time.Since(s.t0), Cur: -1}
	all := make([]*parked, 0, len(s.parked))
	var fresh []*parked
	for _, p := range s.parked {
		all = append(all, p)
		if p.order == 0 {
			fresh = append(fresh, p)
		}
	}
	// Arrival order within one quiescence window is a real race; FIFO numbers are handed out by name.
	sort.Slice(fresh, func(a, b int) bool { return fresh[a].g.Name < fresh[b].g.Name })
	for _, p := range fresh {
		s.order++
		p.order = s.order
	}
	sort.Slice(all, func(a, b int) bool { return all[a].order < all[b].order })
	h := fnv.New64a()
	names := make([]string, 0, len(all))
	for _, p := range all {
		names = append(names, roleOf(p.g.Name)+"@"+p.site)
		if p.mu != nil && s.held[p.mu] != "" {
			st.Blocked = append(st.Blocked, p)
			continue
		}
		st.Enabled = append(st.Enabled, p)
	}
	sort.Strings(names)
	for _, n := range names {
		h.Write([]byte(n))
		h.Write([]byte{0})
	}
	s.ctlHash[h.Sum64()] = struct{}{}
	st.OnlyLazy = len(st.Enabled) > 0
	for i, p := range st.Enabled {
		if p.g.Name == s.lastRun {
			st.Cur = i
		}
		if !p.lazy {
			st.OnlyLazy = false
		}
	}
	return st
}

// roleOf strips ordinals from a goroutine name so that control states are comparable across runs.
func roleOf(name string) string {
	var b strings.Builder
	skip := false
	for _, c := range name {
		if c == '#' {
			skip = true
			continue
		}
		if skip {
			if c >= '0' && c <= '9' {
				continue
			}
			skip = false
		}
		b.WriteRune(c)
	}
	return b.String()
}

// Finish ends the simulation: every parked goroutine is released into pass-through mode.
func (s *Sim) Finish() {
	s.Stats.SimTime = time.Since(s.t0)
	s.draining.Store(true)
	s.mu.Lock()
	for k, p := range s.parked {
		close(p.ch)
		delete(s.parked, k)
	}
	s.mu.Unlock()
}

// Draining says whether Finish has been called: whatever a harness goroutine observes from then on
// is the teardown, not the run, and must not be recorded.
func (s *Sim) Draining() bool { return s != nil && s.draining.Load() }

// Detach makes simrt forget the simulation (call after the bubble has been torn down).
func (s *Sim) Detach() { cur.CompareAndSwap(s, nil) }

// LiveEngineGoroutines lists engine goroutines that still exist, with the last sync point each passed.
func (s *Sim) LiveEngineGoroutines() []string {
	s.mu.Lock()
	defer s.mu.Unlock()
	var out []string
	for _, g := range s.live {
		where := g.LastSite
		if p := s.parked[g.Name]; p != nil {
			where = "parked@" + p.site
			if p.mu != nil && s.held[p.mu] != "" {
				where += " (waits for lock held by " + s.held[p.mu] + ")"
			}
		} else {
			where = "after@" + where
		}
		out = append(out, g.Name+" "+where)
	}
	sort.Strings(out)
	return out
}

// LiveEngineGoroutinesOf is LiveEngineGoroutines restricted to goroutines whose name has the prefix
// (the call tree of one client).
func (s *Sim) LiveEngineGoroutinesOf(prefix string) []string {
	var out []string
	for _, l := range s.LiveEngineGoroutines() {
		if strings.HasPrefix(l, prefix) {
			out = append(out, l)
		}
	}
	return out
}

// ParkedKeys lists every parked goroutine (diagnostics for stuck runs).
func (s *Sim) ParkedKeys() []string {
	s.mu.Lock()
	defer s.mu.Unlock()
	var out []string
	for _, p := range s.parked {
		k := p.Key()
		if p.mu != nil && s.held[p.mu] != "" {
			k += " [lock held by " + s.held[p.mu] + "]"
		}
		out = append(out, k)
	}
	sort.Strings(out)
	return out
}

// SitesHit returns how often each sync site was reached.
func (s *Sim) SitesHit() map[string]int {
	s.mu.Lock()
	defer s.mu.Unlock()
	out := make(map[string]int, len(s.sitesHit))
	for k, v := range s.sitesHit {
		out[k] = v
	}
	return out
}

// ControlStates returns the hashes of the distinct control states (multiset of role@site of the
// parked goroutines) seen at decisions.
func (s *Sim) ControlStates() []uint64 {
	s.mu.Lock()
	defer s.mu.Unlock()
	out := make([]uint64, 0, len(s.ctlHash))
	for k := range s.ctlHash {
		out = append(out, k)
	}
	return out
}

// Watchdog aborts the process (exit 2) if f does not return within d of real time.
func Watchdog(d time.Duration, what func() string) (stop func()) {
	t := time.AfterFunc(d, func() {
		buf := make([]byte, 1<<20)
		buf = buf[:runtime.Stack(buf, true)]
		fmt.Fprintf(os.Stderr, "WATCHDOG: run exceeded %v real time: %s\n%s\n", d, what(), buf)
		os.Exit(2)
	})
	return func() { t.Stop() }
}

// CurrentG returns the simulator's record of the calling goroutine, or nil.
func CurrentG() *G { return lookup() }

// CurrentName returns the stable name of the calling goroutine ("" if unknown).
func CurrentName() string {
	if g := lookup(); g != nil {
		return g.Name
	}
	return ""
}
