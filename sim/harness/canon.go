package harness

import (
	"encoding/json"
	"fmt"
	"reflect"
)

// Canon converts engine data (map[any]any, typed slices, structs) into plain JSON-able values:
// map[string]any, []any, string, float64/int64, bool, nil.
func Canon(v any) any {
	if v == nil {
		return nil
	}
	rv := reflect.ValueOf(v)
	switch rv.Kind() {
	case reflect.Map:
		out := make(map[string]any, rv.Len())
		it := rv.MapRange()
		for it.Next() {
			out[fmt.Sprint(it.Key().Interface())] = Canon(it.Value().Interface())
		}
		return out
	case reflect.Slice, reflect.Array:
		if rv.Kind() == reflect.Slice && rv.IsNil() {
			return nil
		}
		out := make([]any, rv.Len())
		for i := range out {
			out[i] = Canon(rv.Index(i).Interface())
		}
		return out
	case reflect.Pointer, reflect.Interface:
		if rv.IsNil() {
			return nil
		}
		return Canon(rv.Elem().Interface())
	case reflect.Struct:
		b, err := json.Marshal(v)
		if err != nil {
			return fmt.Sprintf("%#v", v)
		}
		var out any
		_ = json.Unmarshal(b, &out)
		return map[string]any{"__struct": rv.Type().String(), "v": out}
	case reflect.Int, reflect.Int8, reflect.Int16, reflect.Int32, reflect.Int64:
		return rv.Int()
	case reflect.Uint, reflect.Uint8, reflect.Uint16, reflect.Uint32, reflect.Uint64:
		return int64(rv.Uint())
	case reflect.Float32, reflect.Float64:
		return rv.Float()
	case reflect.String:
		return rv.String()
	case reflect.Bool:
		return rv.Bool()
	}
	return fmt.Sprintf("%#v", v)
}

// JSON renders a canonical value.
func JSON(v any) string {
	b, err := json.Marshal(Canon(v))
	if err != nil {
		return "!" + err.Error()
	}
	return string(b)
}
