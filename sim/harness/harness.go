// Package harness runs the real engine inside one synctest bubble under the seeded scheduler.
package harness

import (
	"context"
	"errors"
	"fmt"
	log "go.arcalot.io/log/v2"
	"os"
	"runtime"
	"sort"
	"strconv"
	"strings"
	"sync/atomic"
	"testing"
	"testing/synctest"
	"time"

	"go.flow.arcalot.io/deployer"
	deployerregistry "go.flow.arcalot.io/deployer/registry"
	engine "go.flow.arcalot.io/engine"
	"go.flow.arcalot.io/engine/config"
	"go.flow.arcalot.io/engine/internal/builtinfunctions"
	"go.flow.arcalot.io/engine/internal/step"
	"go.flow.arcalot.io/engine/workflow"
	"go.flow.arcalot.io/engine/zverif/simrt"
	"go.flow.arcalot.io/engine/zverif/world"
)

// Env is an engine wired to a simulated world.
type Env struct {
	W        *world.World
	Cfg      *config.Config
	Registry deployerregistry.Registry
	Steps    step.Registry
	Executor workflow.Executor
}

// NewEnv builds the step registry and executor on top of the sim deployer.
func NewEnv(w *world.World) (*Env, error) {
	cfg := &config.Config{
		LocalDeployers: map[string]any{"sim": map[string]any{"deployer_name": "sim"}},
		// the engine's per-output logging is switched on for the outputs the scripted plugin produces most,
		// so that the code around it (inside the run lock) is part of every run
		LoggedOutputConfigs: map[string]*config.StepOutputLogConfig{
			"success": {LogLevel: log.LevelDebug},
			"error":   {LogLevel: log.LevelDebug},
		},
	}
	dr := deployerregistry.New(deployer.Any[*world.SimConfig](world.Factory{W: func() *world.World { return w }}))
	logger := w.Logger()
	sr, err := engine.NewDefaultStepRegistry(logger, dr, cfg)
	if err != nil {
		return nil, err
	}
	ex, err := workflow.NewExecutor(logger, cfg, sr, builtinfunctions.GetFunctions())
	if err != nil {
		return nil, err
	}
	return &Env{W: w, Cfg: cfg, Registry: dr, Steps: sr, Executor: ex}, nil
}

// Prepare parses and prepares a workflow text.
func (e *Env) Prepare(text string, files map[string][]byte) (workflow.ExecutableWorkflow, error) {
	wf, err := workflow.NewYAMLConverter(e.Steps).FromYAML([]byte(text))
	if err != nil {
		return nil, fmt.Errorf("yaml: %w", err)
	}
	if files == nil {
		files = map[string][]byte{}
	}
	return e.Executor.Prepare(wf, files)
}

// ErrClass maps an Execute error to a stable class (messages are not compared).
func ErrClass(err error) string {
	if err == nil {
		return ""
	}
	var e1 *workflow.ErrNoMorePossibleSteps
	var e2 *workflow.ErrNoMorePossibleOutputs
	msg := err.Error()
	switch {
	case errors.As(err, &e1):
		return "no-more-steps"
	case errors.As(err, &e2):
		return "no-more-outputs"
	case strings.Contains(msg, "bug:") || strings.Contains(msg, "Bug:"):
		return "bug"
	case strings.HasPrefix(msg, "invalid workflow input"):
		return "invalid-input"
	case strings.Contains(msg, "workflow execution aborted"):
		return "aborted"
	case strings.Contains(msg, "failed to launch step"):
		return "launch-failed"
	case strings.Contains(msg, "multiple errors"):
		if strings.Contains(msg, "bug:") {
			return "bug"
		}
		return "multiple"
	}
	return "other"
}

// ClientResult is what one Execute call returned.
type ClientResult struct {
	Name           string   `json:"name"`
	Returned       bool     `json:"returned"`
	OutputID       string   `json:"output_id"`
	OutputData     any      `json:"output_data,omitempty"`
	Err            string   `json:"err,omitempty"`
	ErrClass       string   `json:"err_class,omitempty"`
	StartSeq       int64    `json:"start_seq"`
	EndSeq         int64    `json:"end_seq"`
	StartUS        int64    `json:"start_us"`
	EndUS          int64    `json:"end_us"`
	CancelSeq      int64    `json:"cancel_seq,omitempty"`
	CancelUS       int64    `json:"cancel_us,omitempty"`
	Cancelled      bool     `json:"cancelled,omitempty"`
	LeakedAtReturn []string `json:"leaked_at_return,omitempty"` // engine goroutines alive when it returned
	OpenAtReturn   []int    `json:"open_at_return,omitempty"`   // run deployments not closed when it returned
	done           atomic.Bool
	doneCh         chan struct{}
}

// Spec describes one simulated run: which workflow, which clients, which schedule.
type Spec struct {
	Text     string            // main workflow YAML
	Files    map[string]string // sub-workflow files
	Plan     world.Plan
	Policy   simrt.PolicySpec
	Replay   []simrt.Decision // when set, overrides Policy
	MapMode  int
	MapSeed  uint64
	Clients  []ClientSpec
	KeepLogs bool
	Journal  bool
	// SecondPrepare prepares the same text a second time: "before" the clients start, or "during" their
	// runs on a goroutine of its own. Clients with Workflow == 1 run on the second prepared workflow
	// (and wait for it).
	SecondPrepare string
	// Files2, when set, are the sub-workflow files given to the second preparation (same names, other
	// contents): two preparations of one text must each keep to their own files.
	Files2 map[string]string
	// RejectedPrepares preparations of RejectedText (a text the engine must refuse) are made right before
	// the second preparation: what was refused before must not change what a valid text gets.
	RejectedPrepares int
	RejectedText     string
	// PrepareOnly stops after Prepare (C05 probe checks, C10, C16).
	PrepareOnly bool
	// AfterPrepare, if set, is called on the main client goroutine with the prepared workflow.
	AfterPrepare func(wf workflow.ExecutableWorkflow)
	// Body, if set, replaces the Prepare/Execute sequence: it runs on the env/main goroutine and may
	// start further named goroutines (class P and E checks drive the engine's lower-level APIs).
	Body func(b *BodyCtx)
	// Watch is passed to the scheduler (see simrt.Sim.Watch).
	Watch func(site string) bool
	// RealTimeout aborts the process (exit 2) when one run takes longer in real time.
	RealTimeout time.Duration
}

// ClientSpec is one Execute call.
type ClientSpec struct {
	Name  string `json:"name"`
	Input any    `json:"input"`
	// StartAfter makes the client start only after the named client returned ("" = at once).
	StartAfter string `json:"start_after,omitempty"`
	// Cancel: 0 never; otherwise the context is cancelled by an environment action that becomes due at
	// this decision number (counted from the client's start) or when nothing else can run.
	CancelAtDecision int64 `json:"cancel_at_decision,omitempty"`
	// CancelAfterUS, when >0, cancels after this much simulated time instead.
	CancelAfterUS int64 `json:"cancel_after_us,omitempty"`
	// Workflow selects the prepared workflow the client runs: 0 the first, 1 the second preparation
	// of the same text (Spec.SecondPrepare).
	Workflow int `json:"workflow,omitempty"`
}

// BodyCtx is what a custom body gets.
type BodyCtx struct {
	Sim *simrt.Sim
	W   *world.World
	Env *Env
}

// Go starts a named environment goroutine and returns a channel closed when it ends.
func (b *BodyCtx) Go(name string, f func()) <-chan struct{} {
	done := make(chan struct{})
	go func() {
		defer simrt.Enter(name)()
		defer close(done)
		defer b.Sim.Notify()
		b.Sim.Protect(name, f)
	}()
	return done
}

// Result is everything the oracles may look at.
type Result struct {
	Outcome     string                      `json:"outcome"`
	PrepareErr  string                      `json:"prepare_err,omitempty"`
	Clients     []*ClientResult             `json:"clients"`
	Events      []world.Event               `json:"events"`
	Panics      []simrt.PanicRec            `json:"panics,omitempty"`
	Harness     []string                    `json:"harness_errors,omitempty"`
	Stuck       []string                    `json:"stuck,omitempty"` // parked goroutines when the run was called stuck
	LiveAtEnd   []string                    `json:"live_at_end,omitempty"`
	Journal     []simrt.Decision            `json:"journal,omitempty"`
	Snapshots   []simrt.Snapshot            `json:"snapshots,omitempty"`
	Stats       simrt.Stats                 `json:"stats"`
	Fired       map[string]int              `json:"fired,omitempty"`
	BugLogs     []string                    `json:"bug_logs,omitempty"`
	Logs        []string                    `json:"logs,omitempty"`
	SitesHit    map[string]int              `json:"-"`
	Control     []uint64                    `json:"-"`
	Deployments []DeploymentInfo            `json:"deployments,omitempty"`
	BubbleLeak  string                      `json:"bubble_leak,omitempty"`
	World       *world.World                `json:"-"`
	Prepared    workflow.ExecutableWorkflow `json:"-"`
}

// DeploymentInfo summarises one Deploy call.
type DeploymentInfo struct {
	N      int    `json:"n"`
	Src    string `json:"src"`
	Probe  bool   `json:"probe,omitempty"`
	OK     bool   `json:"ok"`
	Closes int    `json:"closes"`
	Exited bool   `json:"exited"`
	Execs  int    `json:"execs,omitempty"`
}

func deploymentInfo(w *world.World) []DeploymentInfo {
	var out []DeploymentInfo
	for _, d := range w.Deployments() {
		out = append(out, DeploymentInfo{N: d.N, Src: d.Src, Probe: d.Probe, OK: d.OK, Closes: int(d.Closes.Load()), Exited: d.Exited.Load(), Execs: int(d.Execs.Load())})
	}
	return out
}

// Run executes one simulated run in a fresh bubble.
func Run(t *testing.T, sp Spec) (res *Result) {
	res = &Result{}
	if sp.RealTimeout == 0 {
		// One run takes milliseconds to a few seconds; the watchdog is for a harness that got stuck, and
		// must not fire just because the machine is overloaded (a 60 s limit did, once, under a load
		// average of 60). VERIF_WATCHDOG_S overrides.
		sp.RealTimeout = 300 * time.Second
		if v, err := strconv.Atoi(os.Getenv("VERIF_WATCHDOG_S")); err == nil && v > 0 {
			sp.RealTimeout = time.Duration(v) * time.Second
		}
	}
	stopWD := simrt.Watchdog(sp.RealTimeout, func() string { return "harness.Run" })
	defer stopWD()
	defer func() {
		// synctest panics when the root goroutine returns while bubble goroutines are still blocked;
		// that is a leak the oracles already know about (LiveAtEnd), not a harness failure.
		if r := recover(); r != nil {
			msg := fmt.Sprint(r)
			if strings.Contains(msg, "deadlock") || strings.Contains(msg, "blocked goroutines") {
				res.BubbleLeak = msg
				return
			}
			panic(r)
		}
	}()
	synctest.Test(t, func(t *testing.T) {
		var pol simrt.Policy
		var s *simrt.Sim
		if sp.Replay != nil {
			pol = &simrt.ReplayPolicy{List: sp.Replay, Sim: func() *simrt.Sim { return s }}
		} else {
			pol = simrt.NewPolicy(sp.Policy)
		}
		s = simrt.Start(pol, sp.MapMode, sp.MapSeed)
		s.RecordJournal = sp.Journal
		s.Watch = sp.Watch
		defer s.Detach()
		leave := simrt.Enter("env/sched")
		defer leave()
		w := world.New(s, sp.Plan)
		w.KeepLogs = sp.KeepLogs
		res.World = w
		var allDone atomic.Bool
		results := make([]*ClientResult, len(sp.Clients))
		for i, c := range sp.Clients {
			results[i] = &ClientResult{Name: c.Name, doneCh: make(chan struct{})}
		}
		res.Clients = results
		byName := map[string]*ClientResult{}
		for _, r := range results {
			byName[r.Name] = r
		}
		var prepErr atomic.Value
		go func() {
			defer simrt.Enter("env/main")()
			defer s.Notify()
			defer allDone.Store(true)
			s.Protect("env/main", func() {
				env, err := NewEnv(w)
				if err != nil {
					prepErr.Store("env: " + err.Error())
					return
				}
				if sp.Body != nil {
					sp.Body(&BodyCtx{Sim: s, W: w, Env: env})
					return
				}
				files := map[string][]byte{}
				for k, v := range sp.Files {
					files[k] = []byte(v)
				}
				simrt.EnvPoint("env:prepare", false, 0)
				w.Log(world.Event{Kind: world.EvClient, Data: map[string]any{"what": "prepare-begin"}})
				wf, err := env.Prepare(sp.Text, files)
				simrt.EnvPoint("env:prepared", false, 0)
				w.Log(world.Event{Kind: world.EvClient, Data: map[string]any{"what": "prepare-end", "ok": err == nil}})
				if err != nil {
					prepErr.Store(err.Error())
					return
				}
				res.Prepared = wf
				if sp.AfterPrepare != nil {
					sp.AfterPrepare(wf)
				}
				if sp.PrepareOnly {
					return
				}
				// a second preparation of the same text
				wf2Ready := make(chan struct{})
				var wf2 workflow.ExecutableWorkflow
				prepareSecond := func() {
					defer close(wf2Ready)
					simrt.EnvPoint("env:prepare2", false, 0)
					w.Log(world.Event{Kind: world.EvClient, Data: map[string]any{"what": "prepare2-begin"}})
					files2 := files
					if sp.Files2 != nil {
						files2 = map[string][]byte{}
						for k, v := range sp.Files2 {
							files2[k] = []byte(v)
						}
					}
					if sp.RejectedPrepares > 0 {
						accepted := 0
						for i := 0; i < sp.RejectedPrepares; i++ {
							if _, err := env.Prepare(sp.RejectedText, files2); err == nil {
								accepted++
							}
						}
						w.Log(world.Event{Kind: world.EvClient, Data: map[string]any{"what": "rejected-prepares", "n": sp.RejectedPrepares, "accepted": accepted}})
					}
					x, err := env.Prepare(sp.Text, files2)
					if s.Draining() {
						return
					}
					w.Log(world.Event{Kind: world.EvClient, Data: map[string]any{"what": "prepare2-end", "ok": err == nil}})
					if err != nil {
						prepErr.Store("second preparation: " + err.Error())
						return
					}
					wf2 = x
				}
				var prep2Done <-chan struct{}
				switch sp.SecondPrepare {
				case "before":
					prepareSecond()
				case "during":
					done := make(chan struct{})
					prep2Done = done
					go func() {
						defer simrt.Enter("env/prep2")()
						defer close(done)
						defer s.Notify()
						s.Protect("env/prep2", prepareSecond)
					}()
				default:
					close(wf2Ready)
				}
				var pending atomic.Int32
				pending.Store(int32(len(sp.Clients)))
				allClients := make(chan struct{})
				for i, c := range sp.Clients {
					c, r := c, results[i]
					go func() {
						defer simrt.Enter("env/client/" + c.Name)()
						defer func() {
							if pending.Add(-1) == 0 {
								close(allClients)
							}
							s.Notify()
						}()
						s.Protect("env/client/"+c.Name, func() {
							if c.StartAfter != "" {
								<-byName[c.StartAfter].doneCh
							}
							ctx, cancel := context.WithCancel(context.Background())
							defer cancel()
							simrt.EnvPoint("env:execute", false, 0)
							r.StartSeq, r.StartUS = s.Seq(), int64(s.Now()/time.Microsecond)
							w.Log(world.Event{Kind: world.EvClient, Data: map[string]any{"what": "execute-begin", "client": c.Name}})
							if c.CancelAtDecision > 0 || c.CancelAfterUS > 0 {
								go func() {
									defer simrt.Enter("env/cancel/" + c.Name)()
									if c.CancelAfterUS > 0 {
										time.Sleep(time.Duration(c.CancelAfterUS) * time.Microsecond)
										simrt.EnvPoint("env:cancel", false, 0)
									} else {
										simrt.EnvPoint("env:cancel", true, r.StartSeq+c.CancelAtDecision)
									}
									if r.done.Load() {
										return
									}
									r.Cancelled = true
									r.CancelSeq, r.CancelUS = s.Seq(), int64(s.Now()/time.Microsecond)
									w.Log(world.Event{Kind: world.EvClient, Data: map[string]any{"what": "cancel", "client": c.Name}})
									w.Fired("caller_cancel")
									cancel()
								}()
							}
							run := wf
							if c.Workflow == 1 && sp.SecondPrepare != "" {
								<-wf2Ready
								if wf2 == nil {
									return // the second preparation failed (reported as a preparation error)
								}
								run = wf2
							}
							id, data, err := run.Execute(ctx, c.Input)
							if s.Draining() {
								return // released by the teardown of a run that had already been declared stuck
							}
							// What is still alive / deployed when Execute has returned? Sampled by the scheduler at the
							// next quiescent point, before anything else is released: goroutines that were just
							// exiting have gone by then, everything else that is left is a genuine leftover.
							simrt.EnvQuiesce("env:returned", func() {
								r.LeakedAtReturn = s.LiveEngineGoroutinesOf("env/client/" + c.Name + "/")
								for _, d := range w.Deployments() {
									if d.OK && !d.Probe && d.Closes.Load() == 0 && strings.HasPrefix(d.By, "env/client/"+c.Name+"/") {
										r.OpenAtReturn = append(r.OpenAtReturn, d.N)
									}
								}
							})
							r.OutputID, r.OutputData = id, Canon(data)
							if err != nil {
								r.Err, r.ErrClass = err.Error(), ErrClass(err)
							}
							r.Returned = true
							r.EndSeq, r.EndUS = s.Seq(), int64(s.Now()/time.Microsecond)
							r.done.Store(true)
							close(r.doneCh)
							w.Log(world.Event{Kind: world.EvClient, Data: map[string]any{"what": "execute-end", "client": c.Name, "output": id, "err_class": r.ErrClass}})
						})
					}()
				}
				<-allClients
				if prep2Done != nil {
					<-prep2Done
				}
			})
		}()
		out := s.Run(func() bool { return allDone.Load() })
		res.Outcome = out.String()
		if v := prepErr.Load(); v != nil {
			res.PrepareErr = v.(string)
		}
		if out == simrt.Stuck || out == simrt.Exhausted {
			res.Stuck = append(s.ParkedKeys(), s.LiveEngineGoroutines()...)
		}
		res.LiveAtEnd = s.LiveEngineGoroutines()
		res.Panics = append(res.Panics, s.Panics...)
		res.Harness = s.HarnessErrors()
		res.Journal = s.Journal
		res.Snapshots = s.Snapshots
		res.Events = w.Events()
		res.Fired = w.FiredCounts()
		res.BugLogs = w.BugLogs
		res.Logs = w.Logs
		res.SitesHit = s.SitesHit()
		res.Control = s.ControlStates()
		res.Deployments = deploymentInfo(w)
		// tear down: release everything into pass-through mode and let the bubble drain
		s.Finish()
		res.Stats = s.Stats
		for _, d := range w.Deployments() {
			if d.OK {
				d.ForceShutdown()
			}
		}
		synctest.Wait()
	})
	return res
}

// Stacks returns a dump of all goroutines (diagnostics).
func Stacks() string {
	buf := make([]byte, 1<<20)
	return string(buf[:runtime.Stack(buf, true)])
}

// SortedKeys returns the sorted keys of a map.
func SortedKeys[V any](m map[string]V) []string {
	out := make([]string, 0, len(m))
	for k := range m {
		out = append(out, k)
	}
	sort.Strings(out)
	return out
}
