package harness

import (
	"context"
	"fmt"
	"strings"
	"sync"
	"testing"
	"testing/synctest"
	"time"

	"go.flow.arcalot.io/engine/workflow"
	"go.flow.arcalot.io/engine/zverif/simrt"
	"go.flow.arcalot.io/engine/zverif/world"
)

// RaceSpec is a workload for the race mode (DESIGN.md §2.5): the same world and fake clock, but no
// scheduler, so goroutines really run in parallel and the Go race detector sees every access. The
// sync points of the instrumented engine only perturb (runtime.Gosched at a seeded subset).
type RaceSpec struct {
	Text     string
	Files    map[string]string
	Plan     world.Plan
	Clients  []ClientSpec // CancelAfterUS is honoured, CancelAtDecision is mapped to a time
	Prepares int          // number of overlapping Prepare calls of the same text (>=1)
	Perturb  uint64
	// Body, if set, runs instead of the prepare/execute sequence.
	Body func(b *BodyCtx)
}

// RaceResult is the little the race mode reports besides the detector's own output.
type RaceResult struct {
	Returned   int
	Panics     []string
	PrepareErr string
	Stuck      bool
}

// RunRace runs the workload un-serialised inside a bubble.
func RunRace(t *testing.T, sp RaceSpec) (res *RaceResult) {
	res = &RaceResult{}
	stopWD := simrt.Watchdog(300*time.Second, func() string { return "harness.RunRace" })
	defer stopWD()
	defer func() {
		if r := recover(); r != nil {
			msg := fmt.Sprint(r)
			if strings.Contains(msg, "deadlock") || strings.Contains(msg, "blocked goroutines") {
				return
			}
			panic(r)
		}
	}()
	simrt.RacePerturb = sp.Perturb
	defer func() { simrt.RacePerturb = 0 }()
	synctest.Test(t, func(t *testing.T) {
		w := world.New(nil, sp.Plan)
		var mu sync.Mutex
		protect := func(name string, f func()) {
			defer func() {
				if r := recover(); r != nil {
					mu.Lock()
					res.Panics = append(res.Panics, fmt.Sprintf("%s: %v", name, r))
					mu.Unlock()
				}
			}()
			f()
		}
		env, err := NewEnv(w)
		if err != nil {
			res.PrepareErr = err.Error()
			return
		}
		if sp.Body != nil {
			done := make(chan struct{})
			go func() {
				defer close(done)
				protect("body", func() { sp.Body(&BodyCtx{W: w, Env: env}) })
			}()
			select {
			case <-done:
			case <-time.After(2 * time.Hour):
				res.Stuck = true
			}
			return
		}
		files := map[string][]byte{}
		for k, v := range sp.Files {
			files[k] = []byte(v)
		}
		n := sp.Prepares
		if n < 1 {
			n = 1
		}
		prepared := make([]workflow.ExecutableWorkflow, n)
		var pwg sync.WaitGroup
		for i := 0; i < n; i++ {
			pwg.Add(1)
			go func() {
				defer pwg.Done()
				protect("prepare", func() {
					wf, err := env.Prepare(sp.Text, files)
					if err != nil {
						mu.Lock()
						res.PrepareErr = err.Error()
						mu.Unlock()
						return
					}
					prepared[i] = wf
				})
			}()
		}
		pwg.Wait()
		if prepared[0] == nil {
			return
		}
		done := make(chan struct{})
		var cwg sync.WaitGroup
		doneCh := map[string]chan struct{}{}
		for _, c := range sp.Clients {
			doneCh[c.Name] = make(chan struct{})
		}
		for i, c := range sp.Clients {
			cwg.Add(1)
			wf := prepared[i%n]
			if wf == nil {
				wf = prepared[0]
			}
			go func() {
				defer cwg.Done()
				defer close(doneCh[c.Name])
				protect("client "+c.Name, func() {
					if c.StartAfter != "" {
						<-doneCh[c.StartAfter]
					}
					ctx, cancel := context.WithCancel(context.Background())
					defer cancel()
					after := c.CancelAfterUS
					if after == 0 && c.CancelAtDecision > 0 {
						after = c.CancelAtDecision * 37 // some time, in microseconds
					}
					if after > 0 {
						go func() {
							time.Sleep(time.Duration(after) * time.Microsecond)
							cancel()
						}()
					}
					_, _, _ = wf.Execute(ctx, c.Input)
					mu.Lock()
					res.Returned++
					mu.Unlock()
				})
			}()
		}
		go func() { cwg.Wait(); close(done) }()
		select {
		case <-done:
		case <-time.After(2 * time.Hour):
			res.Stuck = true
		}
		for _, d := range w.Deployments() {
			if d.OK {
				d.ForceShutdown()
			}
		}
		synctest.Wait()
	})
	return res
}
