package check

import (
	"fmt"
	"os"
	"testing"
	"time"

	"go.flow.arcalot.io/engine/zverif/harness"
	"go.flow.arcalot.io/engine/zverif/ir"
	"go.flow.arcalot.io/engine/zverif/simrt"
	"go.flow.arcalot.io/engine/zverif/world"
)

// TestHuntForeachCloseVsProvide is a directed search (VERIF_HUNT=1): a loop step gets its items from one
// caller while another closes it.
func TestHuntForeachCloseVsProvide(t *testing.T) {
	if os.Getenv("VERIF_HUNT") == "" {
		t.Skip()
	}
	LoadSites(os.Getenv("VERIF_SITES"))
	hits := map[string]int{}
	for seed := int64(1); seed <= 3000; seed++ {
		pc := &ProvCase{Kind: "foreach", Actions: []ProvAction{
			{Client: 0, Op: "provide", Stage: "enabling", Arg: map[string]any{}},
			{Client: 0, Op: "provide", Stage: "execute", Arg: map[string]any{"items": []any{map[string]any{"v": int64(1), "mode": "ok", "dur": int64(0)}}}},
			{Client: 1, Op: "close"},
		}}
		kinds := []string{"random", "pct", "starve", "bounded"}
		c := &Case{Property: "C12", Profile: "foreach-provider", Class: "P", Prov: pc, Plan: world.Plan{Run: map[string]world.RunFault{}}}
		c.Policy = simrt.PolicySpec{Kind: kinds[seed%4], Seed: seed, L: 400, PEnv: 300, Depth: 2, Preemptions: 2}
		if os.Getenv("VERIF_HUNT_HOLDAT") != "" {
			c.Policy = simrt.PolicySpec{Kind: "holdat", Seed: seed, L: 400, PEnv: int(seed % 3 * 100), HoldAt: []int64{1 + seed%60}, Shuffle: seed%2 == 0}
		}
		if v := os.Getenv("VERIF_HUNT_VICTIM"); v != "" {
			c.Policy = simrt.PolicySpec{Kind: "starve", Seed: seed, L: 400, PEnv: int(seed % 3 * 100), Victim: v, WindowUS: 40000, Each: seed%2 == 0, Shuffle: true}
		}
		r := RunCase(t, c, false)
		if seed == -2 {
			for _, d := range r.Journal {
				fmt.Println(d.N, d.At, d.Pick)
			}
			for _, e := range r.Events {
				fmt.Println("EV", e.Seq, e.Kind, e.Data)
			}
		}
		for _, v := range provCheck(c, r) {
			hits[v.Rule+" "+v.Shape]++
			if dir := os.Getenv("VERIF_HUNT_OUT"); dir != "" && hits[v.Rule+" "+v.Shape] == 1 {
				def := Props["C12"]
				mc, mr, info := minimiseSchedule(t, def, c, RunCase(t, c, true), v.Rule, time.Now().Add(20*time.Second))
				rf := &ReplayFile{Property: "C12", Rule: v.Rule, Shape: v.Shape, Message: v.Msg, Seed: uint64(seed), Case: mc, Result: mr, Minimised: info}
				name, err := writeReplay(dir, rf)
				fmt.Println("replay:", name, err)
			}
		}
	}
	fmt.Println(hits)
}

// TestHuntDisabledStepStall is a directed search (VERIF_HUNT=2): a disabled step whose disabled.output the
// result needs, next to a slower step, with a delay right after each state write in turn.
func TestHuntDisabledStepStall(t *testing.T) {
	if os.Getenv("VERIF_HUNT") != "2" {
		t.Skip()
	}
	LoadSites(os.Getenv("VERIF_SITES"))
	loadKnown(os.Getenv("VERIF_KNOWN"))
	hits := map[string]int{}
	for seed := int64(1); seed <= 400; seed++ {
		p := &ir.Program{Subs: map[string]*ir.Program{}}
		p.Steps = []*ir.Step{
			{ID: "primary", Kind: "plugin", In: []ir.Field{ir.F("a", ir.Lit(int64(1)))}, Enabled: ir.Ref("input", "flag")},
			{ID: "other", Kind: "plugin", In: []ir.Field{ir.F("a", ir.Lit(int64(2))), ir.F("dur", ir.Lit(int64(40)))}},
		}
		p.Outputs = []ir.Output{{ID: "success", E: ir.Obj(
			ir.F("p", ir.OneOf("kind", ir.F("ran", ir.StepRef("primary", "outputs", "success")), ir.F("off", ir.StepRef("primary", "disabled", "output")))),
			ir.F("o", ir.StepRef("other", "outputs", "success", "a")))}}
		doc := ir.Doc{"n": int64(1), "tag": "t", "flag": false}
		c := &Case{Property: "C09", Profile: "hunt", Class: "S1", Program: p, Doc: doc}
		c.Policy = simrt.PolicySpec{Kind: "holdat", Seed: seed, L: 1500, HoldState: int(1 + seed%40), WindowUS: 200000, Shuffle: seed%2 == 0}
		r := RunCase(t, c, false)
		v, err := NewView(c, r)
		if err != nil {
			t.Fatal(err)
		}
		for _, x := range OracleResult("C09", v) {
			hits[fmt.Sprintf("%s %s %v known=%s", x.Rule, x.Shape, x.Parts, knownID(x))]++
		}
	}
	for k, n := range hits {
		fmt.Println(n, k)
	}
}

// TestHuntStageObject (VERIF_HUNT=3): the whole outputs stage object of a two-output step that ends in its
// error output is returned by the workflow.
func TestHuntStageObject(t *testing.T) {
	if os.Getenv("VERIF_HUNT") != "3" {
		t.Skip()
	}
	LoadSites(os.Getenv("VERIF_SITES"))
	p := &ir.Program{Subs: map[string]*ir.Program{}}
	p.Steps = []*ir.Step{
		{ID: "s0", Kind: "plugin", Simple: true, In: []ir.Field{ir.F("a", ir.Lit(int64(1))), ir.F("mode", ir.Lit("err"))}},
		{ID: "s1", Kind: "plugin", In: []ir.Field{ir.F("a", ir.Lit(int64(2)))}},
	}
	p.Outputs = []ir.Output{{ID: "success", E: ir.Obj(ir.F("last", ir.StepRef("s1", "outputs", "success", "a")), ir.F("st", ir.StepRef("s0", "outputs", "")))}}
	c := &Case{Property: "C08", Profile: "hunt", Class: "S1", Program: p, Doc: ir.Doc{"n": int64(1), "tag": "t", "flag": false}}
	c.Policy = simrt.PolicySpec{Kind: "fifo", Seed: 1}
	r := RunCase(t, c, false)
	fmt.Println(r.PrepareErr, harness.JSON(r.Clients[0]))
	v, err := NewView(c, r)
	if err != nil {
		t.Fatal(err)
	}
	for _, x := range OracleTypes("C08", v) {
		fmt.Println("VIOL", x.Rule, x.Shape, x.Msg)
	}
}

// TestHuntHeterogeneousList (VERIF_HUNT=4): a workflow output holding a list of two differently shaped objects.
func TestHuntHeterogeneousList(t *testing.T) {
	if os.Getenv("VERIF_HUNT") != "4" {
		t.Skip()
	}
	LoadSites(os.Getenv("VERIF_SITES"))
	p := &ir.Program{Subs: map[string]*ir.Program{}}
	p.Steps = []*ir.Step{{ID: "s0", Kind: "plugin", In: []ir.Field{ir.F("a", ir.Lit(int64(1)))}}}
	p.Outputs = []ir.Output{{ID: "success", E: ir.Obj(ir.F("lst", &ir.Expr{K: "list", Items: []*ir.Expr{
		ir.Obj(ir.F("p", ir.StepRef("s0", "outputs", "success", "a"))),
		ir.Obj(ir.F("q", ir.Ref("input", "tag"))),
	}}))}}
	c := &Case{Property: "C08", Profile: "hunt", Class: "S1", Program: p, Doc: ir.Doc{"n": int64(1), "tag": "t", "flag": false}}
	c.Policy = simrt.PolicySpec{Kind: "fifo", Seed: 1}
	r := RunCase(t, c, false)
	fmt.Println("PREPARE:", r.PrepareErr)
	if len(r.Clients) > 0 {
		fmt.Println(harness.JSON(r.Clients[0]))
	}
}

// TestHuntDiscriminatorCollision (VERIF_HUNT=5): a one-of whose discriminator is also a field of an option.
func TestHuntDiscriminatorCollision(t *testing.T) {
	if os.Getenv("VERIF_HUNT") != "5" {
		t.Skip()
	}
	LoadSites(os.Getenv("VERIF_SITES"))
	p := &ir.Program{Subs: map[string]*ir.Program{}}
	p.Steps = []*ir.Step{{ID: "s0", Kind: "plugin", In: []ir.Field{ir.F("a", ir.Lit(int64(1)))}}, {ID: "s1", Kind: "plugin", In: []ir.Field{ir.F("a", ir.Lit(int64(2)))}}}
	p.Outputs = []ir.Output{{ID: "success", E: ir.Obj(ir.F("pick", ir.OneOf("a", ir.F("x", ir.StepRef("s0", "outputs", "success")), ir.F("y", ir.StepRef("s1", "outputs", "success")))))}}
	c := &Case{Property: "C10", Profile: "hunt", Class: "S1", Program: p, Doc: ir.Doc{"n": int64(1), "tag": "t", "flag": false}}
	c.Policy = simrt.PolicySpec{Kind: "fifo", Seed: 1}
	r := RunCase(t, c, false)
	fmt.Println("PREPARE:", r.PrepareErr, "PANICS:", len(r.Panics))
	for _, pn := range r.Panics {
		fmt.Println(pn.Value, "\n", firstLines(pn.Stack, 14))
	}
}

// TestHuntLoopWaitingToBeEnabled (VERIF_HUNT=6): a loop whose `enabled` value can never arrive, next to an
// output that is neither producible nor declared impossible.
func TestHuntLoopWaitingToBeEnabled(t *testing.T) {
	if os.Getenv("VERIF_HUNT") != "6" {
		t.Skip()
	}
	LoadSites(os.Getenv("VERIF_SITES"))
	loadKnown(os.Getenv("VERIF_KNOWN"))
	body := &ir.Program{Name: "body.yaml", Item: true, SrcPrefix: "body.yaml/", Subs: map[string]*ir.Program{}}
	body.Steps = []*ir.Step{{ID: "b0", Kind: "plugin", In: []ir.Field{ir.F("a", ir.Ref("input", "v"))}}}
	body.Outputs = []ir.Output{{ID: "success", E: ir.Obj(ir.F("r", ir.StepRef("b0", "outputs", "success", "a")))}}
	for _, kind := range []string{"foreach", "plugin"} {
		p := &ir.Program{Subs: map[string]*ir.Program{"body.yaml": body}}
		a := &ir.Step{ID: "a", Kind: "plugin", In: []ir.Field{ir.F("a", ir.Lit(int64(1))), ir.F("mode", ir.Lit("err"))}}
		en := ir.Op("==", ir.StepRef("a", "outputs", "success", "a"), ir.Lit(int64(3)))
		var second *ir.Step
		if kind == "foreach" {
			second = &ir.Step{ID: "loop", Kind: "foreach", Sub: "body.yaml", Items: &ir.Expr{K: "list", Items: []*ir.Expr{ir.Obj(ir.F("v", ir.Lit(int64(1))))}}, Enabled: en}
		} else {
			second = &ir.Step{ID: "loop", Kind: "plugin", In: []ir.Field{ir.F("a", ir.Lit(int64(2)))}, Enabled: en}
		}
		p.Steps = []*ir.Step{a, second}
		p.Outputs = []ir.Output{{ID: "success", E: ir.Obj(ir.F("c", ir.StepRef("a", "closed", "result")))}}
		c := &Case{Property: "C01", Profile: "hunt", Class: "S1", Program: p, Doc: ir.Doc{"n": int64(1), "tag": "t", "flag": false}}
		c.Policy = simrt.PolicySpec{Kind: "fifo", Seed: 1}
		r := RunCase(t, c, false)
		fmt.Println(kind, "PREPARE:", r.PrepareErr, "OUTCOME:", r.Outcome)
		if len(r.Clients) > 0 {
			fmt.Println("  ", r.Clients[0].Returned, r.Clients[0].ErrClass, r.Clients[0].EndUS)
		}
		v, err := NewView(c, r)
		if err == nil {
			for _, x := range OracleTerminates("C01", v) {
				fmt.Println("   VIOL", x.Rule, x.Shape, x.Parts, "known=", knownID(x))
			}
		}
	}
}

// TestHuntNeverStartingStepErrorPath (VERIF_HUNT=7): the only output refers to an error-path stage of a
// step that never starts (its input needs a step that ends in its error output), while an unrelated step
// never finishes. Writes the replay of the first hang to VERIF_HUNT_OUT.
func TestHuntNeverStartingStepErrorPath(t *testing.T) {
	if os.Getenv("VERIF_HUNT") != "7" {
		t.Skip()
	}
	LoadSites(os.Getenv("VERIF_SITES"))
	loadKnown(os.Getenv("VERIF_KNOWN"))
	body := &ir.Program{Name: "body.yaml", Item: true, SrcPrefix: "body.yaml/", Subs: map[string]*ir.Program{}}
	body.Steps = []*ir.Step{{ID: "b0", Kind: "plugin", In: []ir.Field{ir.F("a", ir.Ref("input", "v"))}}}
	body.Outputs = []ir.Output{{ID: "success", E: ir.Obj(ir.F("r", ir.StepRef("b0", "outputs", "success", "a")))}}
	for _, kind := range []string{"foreach", "plugin"} {
		p := &ir.Program{Subs: map[string]*ir.Program{"body.yaml": body}}
		a := &ir.Step{ID: "a", Kind: "plugin", In: []ir.Field{ir.F("a", ir.Lit(int64(1))), ir.F("mode", ir.Lit("err"))}}
		var second *ir.Step
		var out *ir.Expr
		if kind == "foreach" {
			second = &ir.Step{ID: "b", Kind: "foreach", Sub: "body.yaml", Items: ir.StepRef("a", "outputs", "success", "its")}
			out = ir.StepRef("b", "failed", "error", "errors")
		} else {
			second = &ir.Step{ID: "b", Kind: "plugin", In: []ir.Field{ir.F("a", ir.StepRef("a", "outputs", "success", "a"))}}
			out = ir.StepRef("b", "crashed", "error")
		}
		slow := &ir.Step{ID: "slow", Kind: "plugin", In: []ir.Field{ir.F("a", ir.Lit(int64(1))), ir.F("mode", ir.Lit("hang"))}}
		p.Steps = []*ir.Step{a, second, slow}
		p.Outputs = []ir.Output{{ID: "fallback", E: ir.Obj(ir.F("e", out))}}
		c := &Case{Property: "C01", Profile: "hunt", Class: "S1", Program: p, Doc: ir.Doc{"n": int64(1), "tag": "t", "flag": false}}
		c.Policy = simrt.PolicySpec{Kind: "fifo", Seed: 1}
		r := RunCase(t, c, true)
		fmt.Println(kind, "PREPARE:", r.PrepareErr, "OUTCOME:", r.Outcome)
		v, err := NewView(c, r)
		if err != nil {
			continue
		}
		for _, x := range OracleTerminates("C01", v) {
			fmt.Println("   VIOL", x.Rule, x.Shape, x.Parts, "known=", knownID(x))
			if dir := os.Getenv("VERIF_HUNT_OUT"); dir != "" {
				rf := &ReplayFile{Property: "C01", Rule: x.Rule, Shape: x.Shape, Message: x.Msg, Seed: uint64(len(kind)), Case: c, Result: r}
				rf.YAML, rf.Files = p.YAML(), p.Files()
				name, _ := writeReplay(dir, rf)
				fmt.Println("   wrote", name)
			}
		}
	}
}

// TestHuntDisabledOutputOfStepThatNeverStarts (VERIF_HUNT=8): an enabled step that never starts (its input
// needs a step that ends in its error output) and an output that waits, optionally, for its disabled output.
func TestHuntDisabledOutputOfStepThatNeverStarts(t *testing.T) {
	if os.Getenv("VERIF_HUNT") != "8" {
		t.Skip()
	}
	LoadSites(os.Getenv("VERIF_SITES"))
	loadKnown(os.Getenv("VERIF_KNOWN"))
	p := &ir.Program{Subs: map[string]*ir.Program{}}
	a := &ir.Step{ID: "a", Kind: "plugin", In: []ir.Field{ir.F("a", ir.Lit(int64(1))), ir.F("mode", ir.Lit("err"))}}
	b := &ir.Step{ID: "b", Kind: "plugin", In: []ir.Field{ir.F("a", ir.StepRef("a", "outputs", "success", "a"))}}
	p.Steps = []*ir.Step{a, b}
	p.Outputs = []ir.Output{{ID: "success", E: ir.Obj(ir.F("in", ir.Ref("input", "n")), ir.F("wd_b", ir.Opt("wait-optional", ir.StepRef("b", "disabled", "output", "message"))))}}
	c := &Case{Property: "C15", Profile: "hunt", Class: "S1", Program: p, Doc: ir.Doc{"n": int64(1), "tag": "t", "flag": false}}
	c.Policy = simrt.PolicySpec{Kind: "fifo", Seed: 1}
	r := RunCase(t, c, true)
	fmt.Println("PREPARE:", r.PrepareErr, "OUTCOME:", r.Outcome)
	if len(r.Clients) > 0 {
		fmt.Println("  returned", r.Clients[0].Returned, "err", r.Clients[0].ErrClass, "out", r.Clients[0].OutputID)
	}
	for _, x := range Props["C15"].Check(c, r) {
		fmt.Println("   VIOL", x.Rule, x.Shape, x.Parts, "known=", knownID(x))
	}
}

// TestHuntStoppedStepIgnoringCancel (VERIF_HUNT=9): shape A with a victim that ignores the cancel signal and
// an output that waits for its crash report.
func TestHuntStoppedStepIgnoringCancel(t *testing.T) {
	if os.Getenv("VERIF_HUNT") != "9" {
		t.Skip()
	}
	LoadSites(os.Getenv("VERIF_SITES"))
	loadKnown(os.Getenv("VERIF_KNOWN"))
	p := &ir.Program{Subs: map[string]*ir.Program{}}
	c10 := int64(10)
	victim := &ir.Step{ID: "victim", Kind: "plugin", In: []ir.Field{ir.F("a", ir.Lit(int64(2))), ir.F("mode", ir.Lit("hang")), ir.F("on_cancel", ir.Lit("ignore"))}, StopIf: ir.StepRef("stopper", "outputs", ""), Closure: &c10}
	stopper := &ir.Step{ID: "stopper", Kind: "plugin", In: []ir.Field{ir.F("a", ir.Lit(int64(3))), ir.F("dur", ir.Lit(int64(5)))}, WaitFor: ir.StepRef("victim", "starting", "started")}
	p.Steps = []*ir.Step{victim, stopper}
	p.Outputs = []ir.Output{{ID: "success", E: ir.Obj(ir.F("last", ir.StepRef("stopper", "outputs", "success", "a")), ir.F("victim", ir.StepRef("victim", "crashed", "error")))}}
	c := &Case{Property: "C01", Profile: "hunt", Class: "S1", Program: p, Doc: ir.Doc{"n": int64(1), "tag": "t", "flag": false}}
	c.Policy = simrt.PolicySpec{Kind: "fifo", Seed: 1}
	r := RunCase(t, c, true)
	fmt.Println("PREPARE:", r.PrepareErr, "OUTCOME:", r.Outcome, r.Stuck)
	if len(r.Clients) > 0 {
		fmt.Println("  returned", r.Clients[0].Returned, "err", r.Clients[0].ErrClass, r.Clients[0].Err, "out", r.Clients[0].OutputID)
	}
	for _, x := range Props["C01"].Check(c, r) {
		fmt.Println("   VIOL", x.Rule, x.Shape, x.Parts, "known=", knownID(x))
	}
}
