package check

import (
	"fmt"

	"go.flow.arcalot.io/engine/zverif/harness"
	"go.flow.arcalot.io/engine/zverif/ir"
	"pgregory.net/rapid"
)

func init() {
	// ---- C14: a prepared workflow can be run again and concurrently with identical results ----
	c14 := []*ir.Profile{
		{Name: "c14-plain", MinSteps: 1, MaxSteps: 4, Durs: []int64{0, 1, 5, 20, 100}, PWaitFor: 40, PDeploySlow: 30, PDisabled: 30, MaxOutputs: 2, DeepExpr: true},
		{Name: "c14-failing", MinSteps: 1, MaxSteps: 4, Durs: []int64{0, 5, 50}, Modes: []string{"err", "crash", "alt"}, PBad: 40, PDeployFail: 15, PDisabled: 30, PWaitFor: 30, MaxOutputs: 3, ErrOutput: true, PErrPathRef: 20},
		{Name: "c14-loops", ItemsFromStep: 30, MinSteps: 1, MaxSteps: 3, Durs: []int64{0, 5, 50}, Foreach: 60, PWaitFor: 20, PDisabled: 30, MaxOutputs: 2, Modes: []string{"err"}, PBad: 15},
		{Name: "c14-tags", MinSteps: 2, MaxSteps: 4, Durs: []int64{0, 5, 50}, PDisabled: 50, PWaitFor: 20, Tags: true, MaxOutputs: 2},
	}
	register(&PropDef{ID: "C14",
		Gen: func(t *rapid.T) *Case {
			c := genS1(t, "C14", c14, true)
			c.Class = "S1x"
			// a third of the programs fail at run time for the runs whose own input makes them (division by
			// the run's number): a run that ended without output must leave nothing behind for the others
			failsForZero := rapid.IntRange(0, 2).Draw(t, "fails_for_n_zero") == 0
			if failsForZero {
				o := &c.Program.Outputs[0]
				o.E.Fields = append(o.E.Fields, ir.F("rt", ir.Op("/", ir.Lit(int64(100)), ir.Ref("input", "n"))))
			}
			k := rapid.IntRange(2, 4).Draw(t, "nclients")
			for i := 0; i < k; i++ {
				doc := ir.Doc{}
				for kk, vv := range c.Doc {
					doc[kk] = vv
				}
				// every run is recognisable by its own tag and number
				doc["tag"] = fmt.Sprintf("run%d", i)
				doc["n"] = int64(rapid.IntRange(0, 9).Draw(t, "client_n"))
				if failsForZero && rapid.IntRange(0, 2).Draw(t, "client_n_zero") == 0 {
					doc["n"] = int64(0)
				}
				doc["flag"] = rapid.Bool().Draw(t, "client_flag")
				cl := harness.ClientSpec{Name: fmt.Sprintf("c%d", i), Input: map[string]any(doc)}
				if i > 0 && rapid.IntRange(0, 2).Draw(t, "sequential") == 0 {
					cl.StartAfter = fmt.Sprintf("c%d", rapid.IntRange(0, i-1).Draw(t, "after"))
				}
				if rapid.IntRange(0, 4).Draw(t, "client_cancel") == 0 {
					cl.CancelAtDecision = int64(rapid.IntRange(1, 400).Draw(t, "client_cancel_at"))
				}
				c.Clients = append(c.Clients, cl)
			}
			// "preparing or running one workflow does not change the behaviour of another prepared from the
			// same text": a second preparation, before or during the runs, and some runs on it
			c.SecondPrepare = rapid.SampledFrom([]string{"", "", "before", "during", "during"}).Draw(t, "second_prepare")
			if c.SecondPrepare != "" && rapid.IntRange(0, 3).Draw(t, "refused_first") == 0 {
				// texts the engine refuses are prepared in between: a long-lived process sees plenty of those
				c.RejectedPrepares = rapid.SampledFrom([]int{1, 3, 40, 70}).Draw(t, "refused_preparations")
			}
			if c.SecondPrepare != "" && len(c.Program.Subs) > 0 && rapid.Bool().Draw(t, "other_sub_files") {
				// the second preparation gets other contents under the same sub-workflow file names
				c.Program2 = otherSubFiles(c.Program)
			}
			if c.SecondPrepare != "" {
				for i := range c.Clients {
					if rapid.Bool().Draw(t, "on_second") {
						c.Clients[i].Workflow = 1
					}
				}
			}
			return c
		},
		Check: func(c *Case, r *harness.Result) []Violation {
			if r.PrepareErr != "" {
				return []Violation{viol("C14", "prepare-rejected-generated-program", "", "a well-typed generated program was rejected: %s", r.PrepareErr)}
			}
			if len(r.Panics) > 0 {
				return nil
			}
			var out []Violation
			for i := range c.Clients {
				v, err := NewViewFor(c, r, i)
				if err != nil {
					return []Violation{{Property: "C14", Rule: "harness", Msg: err.Error()}}
				}
				if v.C0 == nil {
					continue
				}
				var vs []Violation
				if r.Outcome == "stuck" || r.Outcome == "exhausted" {
					if !v.C0.Returned {
						vs = append(vs, viol("C14", "run-never-returned", "", "run %s of %d overlapping runs never returned: %v", v.C0.Name, len(c.Clients), r.Stuck))
					}
				} else if v.C0.Cancelled {
					// a cancelled run may end either way, but what it returns must be genuinely its own
					vs = append(vs, OracleObservedResult("C14", v)...)
				} else {
					vs = append(vs, OracleResult("C14", v)...)
				}
				// no run sees a value of another run: every plugin input equals the evaluation over this run's own data
				vs = append(vs, OracleInputs("C14", v)...)
				for _, x := range vs {
					x.Msg = fmt.Sprintf("[run %s of %d] %s", v.C0.Name, len(c.Clients), x.Msg)
					out = append(out, x)
				}
			}
			return out
		},
	})
}

// otherSubFiles is a copy of the program whose sub-workflow files have other contents under the same
// names: the first plugin step of each gets `s: "second"`.
func otherSubFiles(p *ir.Program) *ir.Program {
	q := p.Clone()
	var alter func(p *ir.Program)
	alter = func(p *ir.Program) {
		for _, sub := range p.Subs {
			for _, st := range sub.Steps {
				if st.Kind == "plugin" {
					replaced := false
					for i := range st.In {
						if st.In[i].Name == "s" {
							st.In[i].E, replaced = ir.Lit("second"), true
						}
					}
					if !replaced {
						st.In = append(st.In, ir.F("s", ir.Lit("second")))
					}
					break
				}
			}
			alter(sub)
		}
	}
	alter(q)
	return q
}
