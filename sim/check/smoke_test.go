package check

import (
	"crypto/sha256"
	"encoding/json"
	"fmt"
	"os"
	"testing"

	"go.flow.arcalot.io/engine/zverif/harness"
	"go.flow.arcalot.io/engine/zverif/simrt"
)

const twoStep = `
version: v0.2.0
input:
  root: RootObject
  objects:
    RootObject:
      id: RootObject
      properties:
        n:
          type:
            type_id: integer
steps:
  a:
    plugin:
      src: "sim://a"
      deployment_type: "sim"
    step: work
    input:
      a: !expr $.input.n
      dur: 20
  b:
    plugin:
      src: "sim://b"
      deployment_type: "sim"
    step: work
    input:
      a: !expr $.steps.a.outputs.success.a
      s: !expr $.steps.a.outputs.success.s
      dur: 30
outputs:
  success:
    r: !expr $.steps.b.outputs.success
`

func hashResult(r *harness.Result) string {
	// error *messages* are not part of the trace: pluginsdk builds some of them by ranging over a Go map
	// ("expected one of: zero, n, tag ..."), which the instrumentation does not reach; the oracles compare
	// error classes only
	clients := make([]*harness.ClientResult, len(r.Clients))
	for i, c := range r.Clients {
		cc := harness.ClientResult{Name: c.Name, Returned: c.Returned, OutputID: c.OutputID, OutputData: c.OutputData, ErrClass: c.ErrClass,
			StartSeq: c.StartSeq, EndSeq: c.EndSeq, StartUS: c.StartUS, EndUS: c.EndUS, CancelSeq: c.CancelSeq, CancelUS: c.CancelUS,
			Cancelled: c.Cancelled, LeakedAtReturn: c.LeakedAtReturn, OpenAtReturn: c.OpenAtReturn}
		clients[i] = &cc
	}
	r = &harness.Result{Outcome: r.Outcome, Clients: clients, Events: r.Events, Panics: r.Panics, Journal: r.Journal}
	b, _ := json.Marshal(struct {
		O string
		C []*harness.ClientResult
		E any
		P any
	}{r.Outcome, r.Clients, r.Events, r.Panics})
	j, _ := json.Marshal(r.Journal)
	h := sha256.Sum256(append(b, j...))
	return fmt.Sprintf("%x", h[:8])
}

func TestSmoke(t *testing.T) {
	for seed := int64(0); seed < 4; seed++ {
		kind := []string{"fifo", "random", "pct", "starve"}[seed%4]
		sp := harness.Spec{
			Text:    twoStep,
			Policy:  simrt.PolicySpec{Kind: kind, Seed: seed, L: 300, PTime: 100, PSelect: 200, Depth: 2, Victim: "provider.go", WindowUS: 20000},
			MapMode: simrt.MapRandom, MapSeed: uint64(seed),
			Clients: []harness.ClientSpec{{Name: "c0", Input: map[string]any{"n": 3}}},
			Journal: true,
		}
		r := harness.Run(t, sp)
		c := r.Clients[0]
		t.Logf("seed=%d kind=%s outcome=%s prepErr=%q id=%q err=%q decisions=%d time=%v events=%d hash=%s leak=%v harness=%v", seed, kind, r.Outcome, r.PrepareErr, c.OutputID, c.Err, r.Stats.Decisions, r.Stats.SimTime, len(r.Events), hashResult(r), r.LiveAtEnd, r.Harness)
		if os.Getenv("SMOKE_V") != "" {
			b, _ := json.MarshalIndent(r, "", " ")
			t.Logf("%s", b)
		}
	}
}
