package check

import (
	"bytes"
	"encoding/json"
	"flag"
	"fmt"
	"os"
	"path/filepath"
	"strconv"
	"strings"
	"testing"
	"time"

	"go.flow.arcalot.io/engine/zverif/harness"
	"go.flow.arcalot.io/engine/zverif/ir"
	"go.flow.arcalot.io/engine/zverif/simrt"
	"pgregory.net/rapid"
)

// fakeTB lets rapid.Check run without failing the Go test: the worker reports through its journal.
type fakeTB struct {
	failed bool
	msgs   []string
}

func (f *fakeTB) Helper()                  {}
func (f *fakeTB) Name() string             { return "worker" }
func (f *fakeTB) Logf(s string, a ...any)  {}
func (f *fakeTB) Log(a ...any)             {}
func (f *fakeTB) Skipf(s string, a ...any) { panic("skip") }
func (f *fakeTB) Skip(a ...any)            { panic("skip") }
func (f *fakeTB) SkipNow()                 { panic("skip") }
func (f *fakeTB) Errorf(s string, a ...any) {
	f.failed = true
	f.msgs = append(f.msgs, fmt.Sprintf(s, a...))
}
func (f *fakeTB) Error(a ...any) { f.failed = true; f.msgs = append(f.msgs, fmt.Sprint(a...)) }
func (f *fakeTB) Fatalf(s string, a ...any) {
	f.failed = true
	f.msgs = append(f.msgs, fmt.Sprintf(s, a...))
	panic(stopWorker{})
}
func (f *fakeTB) Fatal(a ...any) {
	f.failed = true
	f.msgs = append(f.msgs, fmt.Sprint(a...))
	panic(stopWorker{})
}
func (f *fakeTB) FailNow()     { f.failed = true; panic(stopWorker{}) }
func (f *fakeTB) Fail()        { f.failed = true }
func (f *fakeTB) Failed() bool { return f.failed }

type stopWorker struct{}

// ReplayFile is the self-contained replay file of a violation.
type ReplayFile struct {
	Property  string            `json:"property"`
	Rule      string            `json:"rule"`
	Shape     string            `json:"shape,omitempty"`
	Message   string            `json:"message"`
	Seed      uint64            `json:"seed"`
	RapidSeed uint64            `json:"rapid_seed"`
	Case      *Case             `json:"case"`
	YAML      string            `json:"workflow_yaml"`
	Files     map[string]string `json:"files,omitempty"`
	Result    *harness.Result   `json:"result,omitempty"`
	Minimised map[string]any    `json:"minimised,omitempty"`
}

// WorkerOut is what a worker process reports to the driver.
type WorkerOut struct {
	Property   string      `json:"property"`
	Worker     int         `json:"worker"`
	Seed       uint64      `json:"seed"`
	Seeds      []uint64    `json:"rapid_seeds"`
	WallS      float64     `json:"wall_s"`
	Stats      *Stats      `json:"stats"`
	Violations []Violation `json:"violations,omitempty"`
	Replays    []string    `json:"replays,omitempty"`
	// OrigReplays: for each violation, the case as it was first drawn (before rapid shrank it); "" when
	// that is the reported case. A failure that depends on what the same process ran before - state the
	// engine keeps per process - shrinks to a case that does not fail on its own; the original may.
	OrigReplays []string         `json:"orig_replays,omitempty"`
	HarnessErr  []string         `json:"harness_errors,omitempty"`
	KnownHits   map[string]int64 `json:"known_hits,omitempty"`
}

// KnownFinding is one entry of /verif/known_findings.json: a genuine defect of the engine that is
// recorded rather than repaired. It is identified by property + oracle rule + shape (the failing
// input shape or call site), so a different violation of the same property is still reported.
type KnownFinding struct {
	ID       string `json:"id"`
	Property string `json:"property"`
	Rule     string `json:"rule"`
	Shape    string `json:"shape"`
	What     string `json:"what"`
	// Parts, when present, is the set of refinements the finding covers (see Violation.Parts).
	Parts []string `json:"parts,omitempty"`
}

var knownFindings []KnownFinding

func loadKnown(path string) {
	b, err := os.ReadFile(path)
	if err != nil {
		return
	}
	var f struct {
		Known []KnownFinding `json:"known"`
	}
	if json.Unmarshal(b, &f) == nil {
		knownFindings = f.Known
	}
}

func knownID(v Violation) string {
	for _, k := range knownFindings {
		if k.Property == v.Property && (k.Rule == "" || k.Rule == v.Rule) && (k.Shape == "" || strings.Contains(v.Shape, k.Shape)) {
			ok := true
			if len(k.Parts) > 0 {
				for _, p := range v.Parts {
					found := false
					for _, q := range k.Parts {
						if p == q {
							found = true
						}
					}
					ok = ok && found
				}
				ok = ok && len(v.Parts) > 0
			}
			if ok {
				return k.ID
			}
		}
	}
	return ""
}

func envInt(name string, def int64) int64 {
	if v, err := strconv.ParseInt(os.Getenv(name), 10, 64); err == nil {
		return v
	}
	return def
}

func mix(a, b, c uint64) uint64 {
	x := a*0x9e3779b97f4a7c15 + b*0xbf58476d1ce4e5b9 + c*0x94d049bb133111eb + 0x2545F4914F6CDD1D
	x ^= x >> 31
	x *= 0xd6e8feb86659fd93
	x ^= x >> 29
	if x == 0 {
		x = 1
	}
	return x
}

// checkCase runs a case and returns the violations of its property's oracle.
func checkCase(t *testing.T, def *PropDef, c *Case) (*harness.Result, []Violation) {
	r := RunCase(t, c, true)
	if h := harnessTrouble(r); h != "" {
		return r, []Violation{{Property: def.ID, Rule: "harness", Msg: h}}
	}
	return r, def.Check(c, r)
}

func sampleOf(c *Case, r *harness.Result) any {
	j := r.Journal
	if len(j) > 40 {
		j = j[:40]
	}
	var picks []string
	for _, d := range j {
		picks = append(picks, d.Pick)
	}
	res := map[string]any{}
	for _, cl := range r.Clients {
		res[cl.Name] = map[string]any{"output": cl.OutputID, "err_class": cl.ErrClass, "data": cl.OutputData, "cancelled": cl.Cancelled}
	}
	var yaml string
	if c.Program != nil {
		yaml = c.Program.YAML()
	}
	if c.Prov != nil {
		res["provider_actions"] = c.Prov.Actions
		var notes []string
		for _, e := range r.Events {
			if e.Kind == "notify" {
				notes = append(notes, fmt.Sprintf("%v(%v,%v->%v)", e.Data["t"], e.Data["prev"], e.Data["out"], e.Data["stage"]))
			}
		}
		res["notifications"] = notes
	}
	if c.Prep != nil {
		res["variants"] = c.Prep.Variants
		res["corruption"] = c.Prep.Corruption
		var verdicts []string
		for _, pr := range c.Prep.res {
			verdicts = append(verdicts, verdict(pr.err))
		}
		res["verdicts"] = verdicts
	}
	if c.Eng != nil {
		res["engine_case"] = map[string]any{"relative_dir": c.Eng.RelativeDir, "chdir_to": c.Eng.ChdirTo, "missing_file": c.Eng.MissingFile, "unreadable": c.Eng.Unreadable}
		var runs []any
		for _, er := range c.Eng.runs {
			runs = append(runs, map[string]any{"how": er.how, "output": er.id, "is_error": er.isErr, "err": firstLines(er.err, 1)})
		}
		res["engine_runs"] = runs
	}
	return map[string]any{"profile": c.Profile, "workflow_yaml": yaml, "input": c.Doc, "plan": c.Plan, "policy": c.Policy, "map_mode": c.MapMode, "extra": c.Extra,
		"first_decisions": picks, "decisions": r.Stats.Decisions, "simulated_us": r.Stats.SimTime.Microseconds(), "outcome": r.Outcome, "results": res, "faults_fired": r.Fired}
}

// minimiseSchedule simplifies the decision list of a failing case while the same rule keeps failing.
func minimiseSchedule(t *testing.T, def *PropDef, c *Case, r *harness.Result, rule string, deadline time.Time) (*Case, *harness.Result, map[string]any) {
	info := map[string]any{"decisions_before": len(r.Journal)}
	best := *c
	best.Schedule = append([]simrt.Decision(nil), r.Journal...)
	bestRes := r
	fails := func(cand *Case) (*harness.Result, bool) {
		rr, vs := checkCase(t, def, cand)
		for _, v := range vs {
			// minimisation must not drift into a recorded known finding
			if v.Rule == rule && knownID(v) == "" {
				return rr, true
			}
		}
		return rr, false
	}
	// the explicit list must reproduce
	rr, ok := fails(&best)
	if !ok {
		info["explicit_schedule_reproduces"] = false
		return c, r, info
	}
	bestRes = rr
	info["explicit_schedule_reproduces"] = true
	// 1. truncate (the fair default continues after the list ends)
	lo, hi := 0, len(best.Schedule)
	for lo < hi && time.Now().Before(deadline) {
		mid := (lo + hi) / 2
		cand := best
		cand.Schedule = best.Schedule[:mid]
		if rr, ok := fails(&cand); ok {
			hi = mid
			bestRes = rr
		} else {
			lo = mid + 1
		}
	}
	if hi < len(best.Schedule) {
		cand := best
		cand.Schedule = best.Schedule[:hi]
		if rr, ok := fails(&cand); ok {
			best, bestRes = cand, rr
		}
	}
	// 2. drop chunks (ddmin-style); dropped entries fall back to the fair default
	chunk := len(best.Schedule) / 2
	for chunk >= 1 && time.Now().Before(deadline) {
		removed := false
		for i := 0; i+chunk <= len(best.Schedule) && time.Now().Before(deadline); {
			cand := best
			cand.Schedule = append(append([]simrt.Decision(nil), best.Schedule[:i]...), best.Schedule[i+chunk:]...)
			if rr, ok := fails(&cand); ok {
				best, bestRes = cand, rr
				removed = true
			} else {
				i += chunk
			}
		}
		if !removed || chunk == 1 {
			chunk /= 2
		}
	}
	info["decisions_after"] = len(best.Schedule)
	// keep the full journal of the minimised run so the replay is exact
	final := best
	final.Schedule = append([]simrt.Decision(nil), bestRes.Journal...)
	if rr, ok := fails(&final); ok {
		info["explicit_decisions"] = len(best.Schedule)
		return &final, rr, info
	}
	return &best, bestRes, info
}

func writeReplay(dir string, rf *ReplayFile) (string, error) {
	if err := os.MkdirAll(dir, 0o755); err != nil {
		return "", err
	}
	name := filepath.Join(dir, fmt.Sprintf("%s-%d.json", rf.Property, rf.Seed))
	b, err := json.MarshalIndent(rf, "", " ")
	if err != nil {
		return "", err
	}
	return name, os.WriteFile(name, b, 0o644)
}

// TestWorker explores one property for a time budget. Configuration comes from the environment:
// VERIF_PROP, VERIF_SEED, VERIF_WORKER, VERIF_BUDGET_S, VERIF_OUT, VERIF_SITES, VERIF_REPLAY_DIR.
func TestWorker(t *testing.T) {
	prop := os.Getenv("VERIF_PROP")
	if prop == "" {
		t.Skip("VERIF_PROP not set")
	}
	def := Props[prop]
	if def == nil {
		fmt.Printf("HARNESS-ERROR unknown property %s\n", prop)
		os.Exit(2)
	}
	LoadSites(os.Getenv("VERIF_SITES"))
	loadKnown(os.Getenv("VERIF_KNOWN"))
	seed := uint64(envInt("VERIF_SEED", 1))
	worker := int(envInt("VERIF_WORKER", 0))
	budget := time.Duration(envInt("VERIF_BUDGET_S", 20)) * time.Second
	maxChecks := envInt("VERIF_MAX_RUNS", 1<<40)
	shrinkS := envInt("VERIF_SHRINK_S", 30)
	replayDir := os.Getenv("VERIF_REPLAY_DIR")
	if replayDir == "" {
		replayDir = "/verif/replays"
	}
	out := &WorkerOut{Property: prop, Worker: worker, Seed: seed, Stats: NewStats(), KnownHits: map[string]int64{}}
	start := time.Now()
	deadline := start.Add(budget)
	_ = flag.Set("rapid.nofailfile", "true")
	_ = flag.Set("rapid.shrinktime", fmt.Sprintf("%ds", shrinkS))
	type failure struct {
		c    *Case
		r    *harness.Result
		v    Violation
		seed uint64
	}
	var fail, firstFail *failure
	for batch := uint64(0); time.Now().Before(deadline) && out.Stats.Runs < maxChecks && fail == nil; batch++ {
		rs := mix(seed, uint64(worker), batch)
		out.Seeds = append(out.Seeds, rs)
		_ = flag.Set("rapid.seed", strconv.FormatUint(rs, 10))
		_ = flag.Set("rapid.checks", "40")
		tb := &fakeTB{}
		var target string
		var last, first *failure
		func() {
			defer func() {
				if r := recover(); r != nil {
					if _, ok := r.(stopWorker); !ok {
						panic(r)
					}
				}
			}()
			rapid.Check(tb, func(rt *rapid.T) {
				if target == "" && !time.Now().Before(deadline) {
					return // budget used up: let the remaining checks of this batch pass trivially
				}
				c := def.Gen(rt)
				r, vs := checkCase(t, def, c)
				if target == "" {
					out.Stats.Add(c, r)
					if len(out.Stats.Samples) < 3 && out.Stats.Runs%7 == 1 {
						out.Stats.Samples = append(out.Stats.Samples, sampleOf(c, r))
					}
				}
				for _, v := range vs {
					if v.Rule == "harness" {
						out.HarnessErr = append(out.HarnessErr, v.Msg)
						continue
					}
					if id := knownID(v); id != "" {
						if target == "" {
							out.KnownHits[id]++
							for _, part := range v.Parts {
								out.Stats.Probes["known finding "+id+": "+part]++
							}
						}
						continue
					}
					if target != "" && v.Rule != target {
						continue
					}
					if target == "" {
						target = v.Rule
					}
					last = &failure{c: c, r: r, v: v, seed: rs}
					if first == nil {
						first = last
					}
					rt.Fatalf("%s", v.Rule)
				}
			})
		}()
		if last != nil {
			fail = last
			firstFail = first
		} else if tb.failed {
			// rapid reported a failure that no oracle raised: a generator or harness panic
			out.HarnessErr = append(out.HarnessErr, "rapid failure without an oracle violation: "+strings.Join(tb.msgs, " | "))
		}
		if len(out.HarnessErr) > 0 {
			break
		}
	}
	if fail != nil {
		mc, mr, info := minimiseSchedule(t, def, fail.c, fail.r, fail.v.Rule, time.Now().Add(time.Duration(shrinkS)*time.Second))
		v := fail.v
		if _, vs := checkCase(t, def, mc); len(vs) > 0 {
			for _, x := range vs {
				if x.Rule == fail.v.Rule && knownID(x) == "" {
					v = x
				}
			}
		}
		rf := &ReplayFile{Property: prop, Rule: v.Rule, Shape: v.Shape, Message: v.Msg, Seed: seed, RapidSeed: fail.seed, Case: mc, Result: mr, Minimised: info}
		if mc.Program != nil {
			rf.YAML, rf.Files = mc.Program.YAML(), mc.Program.Files()
		}
		rf.Seed = mix(seed, uint64(worker), 7777) % 1000000000
		name, err := writeReplay(replayDir, rf)
		if err != nil {
			out.HarnessErr = append(out.HarnessErr, "cannot write replay: "+err.Error())
		}
		out.Violations = append(out.Violations, v)
		out.Replays = append(out.Replays, name)
		orig := ""
		if firstFail != nil && firstFail.c != fail.c {
			of := &ReplayFile{Property: prop, Rule: firstFail.v.Rule, Shape: firstFail.v.Shape, Message: firstFail.v.Msg, RapidSeed: firstFail.seed, Case: firstFail.c, Result: firstFail.r,
				Minimised: map[string]any{"note": "the case as first drawn; not shrunk"}}
			if firstFail.c.Program != nil {
				of.YAML, of.Files = firstFail.c.Program.YAML(), firstFail.c.Program.Files()
			}
			of.Seed = rf.Seed + 1000000000 // a name of its own next to the shrunk one
			if on, err := writeReplay(replayDir, of); err == nil {
				orig = on
			}
		}
		out.OrigReplays = append(out.OrigReplays, orig)
	}
	out.WallS = time.Since(start).Seconds()
	out.Stats.Finalize()
	b, _ := json.Marshal(out)
	if p := os.Getenv("VERIF_OUT"); p != "" {
		if err := os.WriteFile(p, b, 0o644); err != nil {
			fmt.Printf("HARNESS-ERROR cannot write %s: %v\n", p, err)
			os.Exit(2)
		}
	} else {
		fmt.Println(string(b))
	}
}

// TestReplay replays a replay file: exit status 0 = no longer fails, 1 = same violation, 2 = trouble.
// decodeReplay reads a replay file the way a fresh process does (see TestReplayRoundTrip).
func decodeReplay(b []byte) (*ReplayFile, error) {
	var rf ReplayFile
	// numbers are decoded exactly: a document may hold integers beyond 2^53 (C07's extreme numbers), which
	// a float64 round trip would change
	dec := json.NewDecoder(bytes.NewReader(b))
	dec.UseNumber()
	if err := dec.Decode(&rf); err != nil {
		return nil, err
	}
	if rf.Case != nil {
		if d, ok := exactNumbers(map[string]any(rf.Case.Doc)).(map[string]any); ok {
			rf.Case.Doc = d
		}
		for i := range rf.Case.Clients {
			rf.Case.Clients[i].Input = exactNumbers(rf.Case.Clients[i].Input)
		}
		if rf.Case.Prov != nil {
			for i := range rf.Case.Prov.Actions {
				if m, ok := exactNumbers(rf.Case.Prov.Actions[i].Arg).(map[string]any); ok {
					rf.Case.Prov.Actions[i].Arg = m
				}
			}
		}
		if rf.Case.Program != nil {
			fixProgramNumbers(rf.Case.Program)
		}
		if rf.Case.Program2 != nil {
			fixProgramNumbers(rf.Case.Program2)
		}
	}
	return &rf, nil
}

// exactNumbers turns the json.Number values of a decoded document into int64 (when integral) or float64.
func exactNumbers(v any) any {
	switch x := v.(type) {
	case map[string]any:
		for k, y := range x {
			x[k] = exactNumbers(y)
		}
		return x
	case []any:
		for i := range x {
			x[i] = exactNumbers(x[i])
		}
		return x
	case json.Number:
		if i, err := x.Int64(); err == nil {
			return i
		}
		f, _ := x.Float64()
		return f
	}
	return v
}

// fixProgramNumbers does the same for the literals of a decoded program.
func fixProgramNumbers(p *ir.Program) {
	var fix func(e *ir.Expr)
	fix = func(e *ir.Expr) {
		ir.Walk(e, func(x *ir.Expr) {
			if x.K == "lit" {
				x.V = exactNumbers(x.V)
			}
			for i := range x.Path {
				if n, ok := x.Path[i].(json.Number); ok {
					if v, err := n.Int64(); err == nil {
						x.Path[i] = int(v) // list indexes and integer map keys are ints in a generated program
					}
				}
			}
		})
	}
	for _, s := range p.Steps {
		for _, e := range s.Exprs() {
			fix(e)
		}
		fix(s.Items)
		fix(s.Parallelism)
		if s.Deploy != nil {
			fix(s.Deploy.Latency)
			fix(s.Deploy.Mode)
		}
	}
	for _, o := range p.Outputs {
		fix(o.E)
	}
	for _, sub := range p.Subs {
		fixProgramNumbers(sub)
	}
}

func TestReplay(t *testing.T) {
	path := os.Getenv("VERIF_REPLAY")
	if path == "" {
		t.Skip("VERIF_REPLAY not set")
	}
	b, err := os.ReadFile(path)
	if err != nil {
		fmt.Printf("HARNESS-ERROR %v\n", err)
		os.Exit(2)
	}
	rfp, err := decodeReplay(b)
	if err != nil {
		fmt.Printf("HARNESS-ERROR %v\n", err)
		os.Exit(2)
	}
	rf := *rfp
	def := Props[rf.Property]
	if def == nil {
		fmt.Printf("HARNESS-ERROR unknown property %s\n", rf.Property)
		os.Exit(2)
	}
	LoadSites(os.Getenv("VERIF_SITES"))
	loadKnown(os.Getenv("VERIF_KNOWN"))
	r, vs := checkCase(t, def, rf.Case)
	for _, v := range vs {
		if v.Rule == "harness" {
			fmt.Printf("HARNESS-ERROR %s\n", v.Msg)
			os.Exit(2)
		}
	}
	for _, v := range vs {
		if v.Rule == rf.Rule {
			fmt.Printf("REPLAY-REPRODUCED property=%s rule=%s divergences=%d shape=%q\n%s\n", rf.Property, v.Rule, r.Stats.Divergences, v.Shape, v.Msg)
			for _, l := range r.Logs {
				fmt.Println("LOG", l)
			}
			if os.Getenv("VERIF_REPLAY_VERBOSE") != "" {
				eb, _ := json.MarshalIndent(r.Events, "", " ")
				fmt.Printf("%s\n", eb)
				for _, sn := range r.Snapshots {
					fmt.Printf("SNAPSHOT seq=%d site=%s g=%s\n", sn.Seq, sn.Site, sn.G)
					for _, o := range sn.Others {
						if !strings.Contains(o, " after@") {
							i := strings.LastIndex(o, "@")
							fmt.Printf("   parked %s  func=%s kind=%s root=%s\n", o, SiteFunc[strings.TrimPrefix(o[i+1:], "go:")], SiteKind[strings.TrimPrefix(o[i+1:], "go:")], runRoot(o[:i]))
						}
					}
				}
			}
			os.Exit(1)
		}
	}
	var other []string
	for _, v := range vs {
		other = append(other, v.Rule)
	}
	fmt.Printf("REPLAY-CLEAN property=%s rule=%s divergences=%d other=%s\n", rf.Property, rf.Rule, r.Stats.Divergences, strings.Join(other, ","))
}
