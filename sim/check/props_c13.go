package check

import (
	"fmt"
	"sort"
	"strings"

	"go.flow.arcalot.io/engine/zverif/harness"
	"go.flow.arcalot.io/engine/zverif/ir"
	"go.flow.arcalot.io/engine/zverif/ref"
	"go.flow.arcalot.io/engine/zverif/world"
	"pgregory.net/rapid"
)

// genLoopCase draws a workflow around one foreach step.
func genLoopCase(t *rapid.T, prop string) *Case {
	doc := ir.GenDoc(t, false, 0)
	nItems := rapid.SampledFrom([]int{2, 3, 0, 1, 4, 6, 9, 12}).Draw(t, "nitems")
	if rapid.IntRange(0, 39).Draw(t, "large") == 0 {
		nItems = 60
	}
	pBad := rapid.SampledFrom([]int{0, 0, 20, 50}).Draw(t, "p_item_bad")
	durs := []int64{0, 1, 5, 20, 100}
	if rapid.Bool().Draw(t, "equal_durs") {
		durs = []int64{5}
	}
	fromInput := rapid.Bool().Draw(t, "items_from_input")
	items := []any{} // (never nil: an empty list must not become a null in the replay file)
	var itemExprs []*ir.Expr
	for i := 0; i < nItems; i++ {
		mode := "ok"
		if rapid.IntRange(0, 99).Draw(t, "item_bad") < pBad {
			mode = rapid.SampledFrom([]string{"err", "crash", "alt"}).Draw(t, "item_mode")
		}
		v := int64(rapid.IntRange(0, 9).Draw(t, "item_v"))
		d := rapid.SampledFrom(durs).Draw(t, "item_dur")
		tag := fmt.Sprintf("i%d", i)
		item := map[string]any{"v": v, "mode": mode, "dur": d, "tag": tag}
		fields := []ir.Field{ir.F("v", ir.Lit(v)), ir.F("mode", ir.Lit(mode)), ir.F("dur", ir.Lit(d)), ir.F("tag", ir.Lit(tag))}
		if fromInput && rapid.IntRange(0, 3).Draw(t, "item_pattern") == 0 {
			// a pattern-typed field: its unserialised form (a compiled expression) is not its serialised form.
			// Only for items that come from the workflow input: a pattern *literal* in the workflow text is
			// refused at preparation by pluginsdk's PatternSchema.ValidateCompatibility ("string is not a valid
			// data type for a float schema") - a defect of the dependency, outside this repository.
			item["pat"] = "^a.*$"
		}
		items = append(items, item)
		itemExprs = append(itemExprs, ir.Obj(fields...))
	}
	if rapid.IntRange(0, 4).Draw(t, "nested_loop") == 0 {
		return genNestedLoopCase(t, prop, doc)
	}
	sub := &ir.Program{Name: "body.yaml", Item: true, SrcPrefix: "body.yaml/", Subs: map[string]*ir.Program{}}
	b0 := &ir.Step{ID: "b0", Kind: "plugin", In: []ir.Field{ir.F("a", ir.Ref("input", "v")), ir.F("s", ir.Ref("input", "tag")), ir.F("mode", ir.Ref("input", "mode")), ir.F("dur", ir.Ref("input", "dur"))}}
	if rapid.IntRange(0, 2).Draw(t, "item_deploy_expr") == 0 {
		// a deploy-time expression over the item: every item run is deployed with its own value
		b0.Deploy = &ir.Deploy{Latency: ir.Ref("input", "dur")}
	}
	sub.Steps = append(sub.Steps, b0)
	last := "b0"
	if rapid.IntRange(0, 2).Draw(t, "second_body_step") == 0 {
		b1 := &ir.Step{ID: "b1", Kind: "plugin", In: []ir.Field{ir.F("a", ir.StepRef("b0", "outputs", "success", "a")), ir.F("s", ir.StepRef("b0", "outputs", "success", "s")), ir.F("dur", ir.Lit(rapid.SampledFrom(durs).Draw(t, "b1_dur")))}}
		sub.Steps = append(sub.Steps, b1)
		last = "b1"
	}
	sub.Outputs = []ir.Output{{ID: "success", E: ir.Obj(ir.F("r", ir.StepRef(last, "outputs", "success", "a")), ir.F("s", ir.StepRef(last, "outputs", "success", "s")))}}
	if rapid.IntRange(0, 2).Draw(t, "body_failure_output") == 0 {
		// a declared non-success way for an item to end
		sub.Outputs = append(sub.Outputs, ir.Output{ID: "failure", E: ir.Obj(ir.F("why", ir.StepRef("b0", "outputs", "error", "reason")))})
	}
	p := &ir.Program{Subs: map[string]*ir.Program{"body.yaml": sub}}
	loop := &ir.Step{ID: "loop", Kind: "foreach", Sub: "body.yaml"}
	if fromInput {
		doc["items"] = items
		loop.Items = ir.Ref("input", "items")
	} else {
		loop.Items = &ir.Expr{K: "list", Items: itemExprs}
	}
	par := int64(rapid.IntRange(1, nItems+2).Draw(t, "parallelism"))
	switch rapid.IntRange(0, 2).Draw(t, "par_kind") {
	case 0:
		loop.Parallelism = ir.Lit(par)
	case 1:
		doc["m"] = par
		loop.Parallelism = ir.Ref("input", "m")
	default:
		par = 1 // default parallelism
	}
	if rapid.IntRange(0, 3).Draw(t, "pre_step") == 0 {
		pre := &ir.Step{ID: "pre", Kind: "plugin", In: []ir.Field{ir.F("a", ir.Lit(int64(1))), ir.F("dur", ir.Lit(rapid.SampledFrom(durs).Draw(t, "pre_dur")))}}
		p.Steps = append(p.Steps, pre)
		loop.WaitFor = ir.StepRef("pre", "outputs", "success")
	}
	if rapid.IntRange(0, 5).Draw(t, "loop_enabled") == 0 {
		loop.Enabled = ir.Ref("input", "flag")
	}
	p.Steps = append(p.Steps, loop)
	p.Outputs = []ir.Output{
		{ID: "success", E: ir.Obj(ir.F("data", ir.StepRef("loop", "outputs", "success", "data")))},
		{ID: "failed", E: ir.Obj(ir.F("f", ir.StepRef("loop", "failed", "error")))},
	}
	if loop.Enabled != nil {
		p.Outputs = append(p.Outputs, ir.Output{ID: "off", E: ir.Obj(ir.F("d", ir.StepRef("loop", "disabled", "output")))})
	}
	c := &Case{Property: prop, Profile: fmt.Sprintf("loop-%d-items", nItems), Class: "S1", Program: p, Doc: doc}
	c.Policy = GenPolicy(t, true)
	c.MapMode, c.MapSeed = GenMapOrder(t)
	c.Extra = map[string]any{"parallelism": par, "items": nItems}
	return c
}

// genNestedLoopCase draws a loop whose body is itself a loop: every outer item runs an inner loop over a
// literal list, with the inner parallelism taken from the outer item (its v) and the outer item's tag
// carried into every inner item. Concurrent outer items must not share a limit or a result.
func genNestedLoopCase(t *rapid.T, prop string, doc ir.Doc) *Case {
	nOuter := rapid.IntRange(2, 4).Draw(t, "nouter")
	nInner := rapid.IntRange(2, 4).Draw(t, "ninner")
	innerDur := rapid.SampledFrom([]int64{5, 20, 50}).Draw(t, "inner_dur")
	var itemExprs []*ir.Expr
	for i := 0; i < nOuter; i++ {
		v := int64(rapid.IntRange(1, 3).Draw(t, "outer_v")) // = parallelism of this item's inner loop
		d := rapid.SampledFrom([]int64{0, 5, 30}).Draw(t, "outer_dur")
		itemExprs = append(itemExprs, ir.Obj(ir.F("v", ir.Lit(v)), ir.F("mode", ir.Lit("ok")), ir.F("dur", ir.Lit(d)), ir.F("tag", ir.Lit(fmt.Sprintf("o%d", i)))))
	}
	inner := &ir.Program{Name: "inner.yaml", Item: true, SrcPrefix: "inner.yaml/", Subs: map[string]*ir.Program{}}
	inner.Steps = []*ir.Step{{ID: "b0", Kind: "plugin", In: []ir.Field{ir.F("a", ir.Ref("input", "v")), ir.F("s", ir.Ref("input", "tag")), ir.F("dur", ir.Ref("input", "dur"))}}}
	inner.Outputs = []ir.Output{{ID: "success", E: ir.Obj(ir.F("r", ir.StepRef("b0", "outputs", "success", "a")), ir.F("s", ir.StepRef("b0", "outputs", "success", "s")))}}
	body := &ir.Program{Name: "body.yaml", Item: true, SrcPrefix: "body.yaml/", Subs: map[string]*ir.Program{"inner.yaml": inner}}
	var innerItems []*ir.Expr
	for j := 0; j < nInner; j++ {
		innerItems = append(innerItems, ir.Obj(ir.F("v", ir.Lit(int64(j+1))), ir.F("tag", ir.Ref("input", "tag")), ir.F("dur", ir.Lit(innerDur))))
	}
	// a pre-step lets the outer items reach their inner loops at different times
	body.Steps = []*ir.Step{
		{ID: "pre", Kind: "plugin", In: []ir.Field{ir.F("a", ir.Ref("input", "v")), ir.F("dur", ir.Ref("input", "dur"))}},
		{ID: "inner", Kind: "foreach", Sub: "inner.yaml", Items: &ir.Expr{K: "list", Items: innerItems}, Parallelism: ir.Ref("input", "v"), WaitFor: ir.StepRef("pre", "outputs", "success")},
	}
	body.Outputs = []ir.Output{{ID: "success", E: ir.Obj(ir.F("inner", ir.StepRef("inner", "outputs", "success", "data")), ir.F("tag", ir.Ref("input", "tag")))}}
	p := &ir.Program{Subs: map[string]*ir.Program{"body.yaml": body}}
	par := int64(rapid.IntRange(2, nOuter).Draw(t, "outer_parallelism"))
	loop := &ir.Step{ID: "loop", Kind: "foreach", Sub: "body.yaml", Items: &ir.Expr{K: "list", Items: itemExprs}, Parallelism: ir.Lit(par)}
	p.Steps = []*ir.Step{loop}
	p.Outputs = []ir.Output{
		{ID: "success", E: ir.Obj(ir.F("data", ir.StepRef("loop", "outputs", "success", "data")))},
		{ID: "failed", E: ir.Obj(ir.F("f", ir.StepRef("loop", "failed", "error")))},
	}
	c := &Case{Property: prop, Profile: "nested-loops", Class: "S1", Program: p, Doc: doc}
	c.Policy = GenPolicy(t, true)
	c.MapMode, c.MapSeed = GenMapOrder(t)
	c.Extra = map[string]any{"parallelism": par, "items": nOuter, "nested": true}
	return c
}

// oracleNestedLoops: the inner item runs of one outer item never exceed that outer item's own limit.
func oracleNestedLoops(prop string, v *View) []Violation {
	var out []Violation
	sf := v.Facts.Steps["loop"]
	if sf == nil || !sf.Started {
		return nil
	}
	limit := map[string]int64{} // outer tag -> inner parallelism
	for _, it := range sf.Items {
		m := it.(map[string]any)
		if tag, ok := m["tag"].(string); ok {
			if n, ok := toInt(m["v"]); ok {
				limit[tag] = n
			}
		}
	}
	innerSrc := "sim://inner.yaml/b0"
	group := map[int]string{} // deployment -> outer tag, known once the plugin has been given its input
	for _, e := range v.R.Events {
		if e.Src == innerSrc && !e.Probe && e.Kind == world.EvExecStart {
			if in, ok := harness.Canon(e.Data["input"]).(map[string]any); ok {
				if s, ok := in["s"].(string); ok {
					group[e.Dep] = s
				}
			}
		}
	}
	cur, high := map[string]int{}, map[string]int{}
	open := map[int]bool{}
	for _, e := range v.R.Events {
		if e.Src != innerSrc || e.Probe {
			continue
		}
		g, known := group[e.Dep]
		if !known {
			continue
		}
		switch e.Kind {
		case world.EvDeployBegin:
			open[e.Dep] = true
			cur[g]++
			if cur[g] > high[g] {
				high[g] = cur[g]
			}
		case world.EvConnClose, world.EvDeployFail:
			if open[e.Dep] {
				delete(open, e.Dep)
				cur[g]--
			}
		}
	}
	for _, g := range keys(high) {
		if lim, ok := limit[g]; ok && int64(high[g]) > lim {
			out = append(out, viol(prop, "inner-parallelism-exceeded", "", "%d inner item runs of outer item %s were in progress at the same time, its inner parallelism is %d (limits by outer item: %v)", high[g], g, lim, limit))
		}
	}
	return out
}

// OracleLoop is C13.
func OracleLoop(prop string, v *View) []Violation {
	var out []Violation
	loop := v.C.Program.Step("loop")
	sf := v.Facts.Steps["loop"]
	if loop == nil || sf == nil {
		return nil
	}
	if body := v.C.Program.Subs["body.yaml"]; body != nil && body.Subs["inner.yaml"] != nil {
		out = append(out, oracleNestedLoops(prop, v)...)
		out = append(out, OracleResult(prop, v)...)
		return out
	}
	bodySrc := "sim://body.yaml/b0"
	// (1) parallelism: deployments of the body's first step that are open at the same time
	par := sf.Par
	if par == 0 {
		par = 1
	}
	type iv struct {
		at    int64
		delta int
	}
	var ivs []iv
	open := map[int]bool{}
	for _, e := range v.R.Events {
		if e.Src != bodySrc || e.Probe {
			continue
		}
		switch e.Kind {
		case world.EvDeployBegin:
			open[e.Dep] = true
			ivs = append(ivs, iv{e.Seq, +1})
		case world.EvConnClose:
			if open[e.Dep] {
				delete(open, e.Dep)
				ivs = append(ivs, iv{e.Seq, -1})
			}
		case world.EvDeployFail:
			if open[e.Dep] {
				delete(open, e.Dep)
				ivs = append(ivs, iv{e.Seq, -1})
			}
		}
	}
	sort.SliceStable(ivs, func(a, b int) bool {
		if ivs[a].at != ivs[b].at {
			return ivs[a].at < ivs[b].at
		}
		return ivs[a].delta < ivs[b].delta
	})
	cur, high := 0, 0
	for _, x := range ivs {
		cur += x.delta
		if cur > high {
			high = cur
		}
	}
	if sf.Started && int64(high) > par {
		out = append(out, viol(prop, "parallelism-exceeded", "", "%d item runs were in progress at the same time, parallelism is %d", high, par))
	}
	// (2) every item is run at most once, with that item as input
	if sf.Started {
		want := map[string]int{}
		for _, it := range sf.Items {
			m := it.(map[string]any)
			want[fmt.Sprintf("%v|%v|%v", m["v"], m["tag"], m["mode"])]++
		}
		got := map[string]int{}
		for _, e := range v.Starts[bodySrc] {
			in, _ := harness.Canon(e.Data["input"]).(map[string]any)
			got[fmt.Sprintf("%v|%v|%v", in["a"], in["s"], in["mode"])]++
		}
		for k, n := range got {
			if n > want[k] {
				out = append(out, viol(prop, "item-input", "", "the loop body ran %d times with input (a|s|mode)=%s but only %d items look like that (items: %s)", n, k, want[k], harness.JSON(sf.Items)))
			}
		}
		// ... and is deployed with the value its own deploy-time expression gives
		if b0 := v.C.Program.Subs["body.yaml"].Step("b0"); b0 != nil && b0.Deploy != nil && b0.Deploy.Latency != nil {
			wantLat, gotLat := map[int64]int{}, map[int64]int{}
			for _, it := range sf.Items {
				if d, ok := toInt(it.(map[string]any)["dur"]); ok {
					wantLat[d]++
				}
			}
			for _, e := range v.R.Events {
				if e.Src == bodySrc && !e.Probe && e.Kind == world.EvDeployBegin {
					if d, ok := toInt(e.Data["latency_ms"]); ok {
						gotLat[d]++
					}
				}
			}
			for d, n := range gotLat {
				if n > wantLat[d] {
					out = append(out, viol(prop, "item-deploy-value", "", "the loop body was deployed %d times with latency_ms=%d but only %d items give that value (items: %s)", n, d, wantLat[d], harness.JSON(sf.Items)))
				}
			}
		}
		if v.R.Outcome == "completed" && v.C0 != nil && v.C0.Err == "" && (v.C0.OutputID == "success" || v.C0.OutputID == "failed") {
			for k, n := range want {
				if got[k] < n {
					out = append(out, viol(prop, "item-not-run", "", "the loop reported completion but only %d of %d items with (a|s|mode)=%s were run", got[k], n, k))
				}
			}
		}
	}
	// (3)-(5) the reported result: order, length, exact failure report
	out = append(out, OracleResult(prop, v)...)
	return out
}

func init() {
	register(&PropDef{ID: "C13",
		Gen: func(t *rapid.T) *Case { return genLoopCase(t, "C13") },
		Check: func(c *Case, r *harness.Result) []Violation {
			if r.PrepareErr != "" {
				return []Violation{viol("C13", "prepare-rejected-generated-program", "", "a well-typed generated program was rejected: %s", r.PrepareErr)}
			}
			if len(r.Panics) > 0 {
				return nil
			}
			v, err := NewView(c, r)
			if err != nil {
				return []Violation{{Property: "C13", Rule: "harness", Msg: err.Error()}}
			}
			if _, heldUp := stalledShape(v); heldUp {
				// a (sub-)workflow's fallback detector gave up because a goroutine was held up: the item or
				// the loop then fails for a reason that is C09's finding, not the loop's
				return nil
			}
			vs := OracleLoop("C13", v)
			for i := range vs {
				if vs[i].Shape == "" {
					vs[i].Shape = loopShape(v)
				} else {
					vs[i].Shape += "; " + loopShape(v)
				}
			}
			return vs
		},
	})
}

// loopShape summarises how the items of the loop end according to the model.
func loopShape(v *View) string {
	sf := v.Facts.Steps["loop"]
	if sf == nil || !sf.Started {
		return "loop does not run"
	}
	kinds := map[string]bool{}
	for _, r := range sf.ItemRes {
		switch {
		case len(r.RunError) > 0:
			kinds["item fails to evaluate"] = true
		case r.Producible["success"] != nil && len(r.Producible) == 1:
			kinds["item succeeds"] = true
		case len(r.Producible) == 0:
			kinds["item produces no output"] = true
		default:
			kinds["item ends in output "+strings.Join(ref.SortedKeys(r.Producible), "+")] = true
		}
	}
	return "items: " + strings.Join(keys(kinds), ", ")
}

func toInt(v any) (int64, bool) {
	switch x := v.(type) {
	case int64:
		return x, true
	case int:
		return int64(x), true
	case uint64:
		return int64(x), true
	case float64:
		return int64(x), x == float64(int64(x))
	}
	return 0, false
}
