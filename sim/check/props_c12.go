package check

import (
	"fmt"
	"sort"
	"strings"
	"sync"
	"time"

	"github.com/anishathalye/porcupine"
	"go.flow.arcalot.io/engine/internal/step"
	"go.flow.arcalot.io/engine/internal/step/plugin"
	"go.flow.arcalot.io/engine/zverif/harness"
	"go.flow.arcalot.io/engine/zverif/ir"
	"go.flow.arcalot.io/engine/zverif/simrt"
	"go.flow.arcalot.io/engine/zverif/world"
	"pgregory.net/rapid"
)

// ProvAction is one environment action against a running plugin step.
type ProvAction struct {
	Client int            `json:"client"`
	Op     string         `json:"op"`    // provide | close | force-close | state | stage
	Stage  string         `json:"stage"` // provide: deploy | enabling | starting | cancelled
	Arg    map[string]any `json:"arg,omitempty"`
}

// ProvCase is a class P case: one plugin step driven directly through the provider API.
type ProvCase struct {
	// Kind is "" for a plugin step, "foreach" for a loop step over a one-step body.
	Kind     string `json:"kind,omitempty"`
	NoSignal bool   `json:"nosignal,omitempty"`
	// Patient makes the body wait, before the final close, until the adversarial part of the schedule is
	// over and five minutes of simulated time have passed on top: whatever can end by itself has ended by then.
	Patient bool         `json:"patient,omitempty"`
	Actions []ProvAction `json:"actions"`
	advLen  int64
	// call records filled in by Body (not part of the replay input)
	calls  []*provCall
	mu     sync.Mutex
	final  string
	stages map[string]map[string]bool // declared outputs per stage
	next   map[string]map[string]bool // lifecycle successor stages
}

type provCall struct {
	Idx      int
	Act      ProvAction
	Invoke   int64
	Return   int64
	Returned bool
	Err      string
}

// Shape is the op sequence without arguments.
func (p *ProvCase) Shape() string {
	var b strings.Builder
	b.WriteString(p.Kind + ";")
	for _, a := range p.Actions {
		fmt.Fprintf(&b, "%d:%s:%s;", a.Client, a.Op, a.Stage)
	}
	return b.String()
}

type recHandler struct {
	w *world.World
	s *simrt.Sim
}

func ptr(s *string) any {
	if s == nil {
		return nil
	}
	return *s
}

func (h recHandler) OnStageChange(_ step.RunningStep, prev *string, outID *string, _ *any, stage string, avail bool, _ *sync.WaitGroup) {
	begin := h.s.Seq()
	simrt.EnvPoint("env:handler", false, 0)
	h.w.Log(world.Event{Kind: "notify", Data: map[string]any{"t": "change", "prev": ptr(prev), "out": ptr(outID), "stage": stage, "avail": avail, "begin": begin}})
}

func (h recHandler) OnStepComplete(_ step.RunningStep, prev string, outID *string, _ *any, _ *sync.WaitGroup) {
	begin := h.s.Seq()
	simrt.EnvPoint("env:handler", false, 0)
	h.w.Log(world.Event{Kind: "notify", Data: map[string]any{"t": "complete", "prev": prev, "out": ptr(outID), "begin": begin}})
}

func (h recHandler) OnStepStageFailure(_ step.RunningStep, stage string, _ *sync.WaitGroup, _ error) {
	begin := h.s.Seq()
	simrt.EnvPoint("env:handler", false, 0)
	h.w.Log(world.Event{Kind: "notify", Data: map[string]any{"t": "fail", "stage": stage, "begin": begin}})
}

// Body drives the provider (runs on env/main inside the bubble).
func (p *ProvCase) Body(b *harness.BodyCtx) {
	p.calls = nil
	var runnable step.RunnableStep
	var err error
	stepName := "work"
	if p.NoSignal {
		stepName = "work_nosignal"
	}
	lifecycleInput, startInput := map[string]any{"step": stepName}, map[string]any{"step": stepName}
	if p.Kind == "foreach" {
		prov, perr := b.Env.Steps.GetByKind("foreach")
		if perr != nil {
			panic(fmt.Errorf("harness: foreach provider: %w", perr))
		}
		runnable, err = prov.LoadSchema(map[string]any{"workflow": foreachBody.Name}, map[string][]byte{foreachBody.Name: []byte(foreachBody.YAML())})
		lifecycleInput, startInput = map[string]any{}, map[string]any{}
	} else {
		prov, perr := plugin.New(b.W.Logger(), b.Env.Registry, b.Env.Cfg.LocalDeployers)
		if perr != nil {
			panic(fmt.Errorf("harness: plugin.New: %w", perr))
		}
		runnable, err = prov.LoadSchema(map[string]any{"plugin": map[string]any{"src": "sim://p", "deployment_type": "sim"}}, map[string][]byte{})
	}
	if err != nil {
		b.W.Log(world.Event{Kind: "client", Data: map[string]any{"what": "loadschema-failed", "err": err.Error()}})
		return
	}
	lc, err := runnable.Lifecycle(lifecycleInput)
	if err != nil {
		panic(fmt.Errorf("harness: Lifecycle: %w", err))
	}
	p.stages = map[string]map[string]bool{}
	p.next = map[string]map[string]bool{}
	for _, st := range lc.Stages {
		p.stages[st.ID] = map[string]bool{}
		p.next[st.ID] = map[string]bool{}
		for n := range st.NextStages {
			p.next[st.ID][n] = true
		}
		for o := range st.Outputs {
			p.stages[st.ID][o] = true
		}
	}
	simrt.EnvPoint("env:start", false, 0)
	rs, err := runnable.Start(startInput, "p", recHandler{b.W, b.Sim})
	if err != nil {
		panic(fmt.Errorf("harness: Start: %w", err))
	}
	byClient := map[int][]int{}
	for i, a := range p.Actions {
		byClient[a.Client] = append(byClient[a.Client], i)
	}
	var dones []<-chan struct{}
	var clients []int
	for c := range byClient {
		clients = append(clients, c)
	}
	sort.Ints(clients)
	for _, c := range clients {
		idxs := byClient[c]
		dones = append(dones, b.Go(fmt.Sprintf("env/actor/%d", c), func() {
			for _, i := range idxs {
				a := p.Actions[i]
				simrt.EnvPoint("env:act-"+a.Op, true, 0)
				call := &provCall{Idx: i, Act: a, Invoke: b.Sim.Seq()}
				p.mu.Lock()
				p.calls = append(p.calls, call)
				p.mu.Unlock()
				b.W.Log(world.Event{Kind: "call", Data: map[string]any{"i": i, "op": a.Op, "stage": a.Stage, "client": a.Client}})
				var err error
				var res string
				switch a.Op {
				case "provide":
					err = rs.ProvideStageInput(a.Stage, a.Arg)
				case "close":
					err = rs.Close()
				case "force-close":
					err = rs.ForceClose()
				case "state":
					res = string(rs.State())
				case "stage":
					res = rs.CurrentStage()
				}
				if b.Sim.Draining() {
					return // released by the teardown of a stuck run: not part of the history
				}
				call.Return, call.Returned = b.Sim.Seq(), true
				if err != nil {
					call.Err = err.Error()
				}
				b.W.Log(world.Event{Kind: "return", Data: map[string]any{"i": i, "op": a.Op, "stage": a.Stage, "err": call.Err, "res": res}})
			}
		}))
	}
	for _, d := range dones {
		<-d
	}
	if p.Patient {
		for p.advLen > 0 && b.Sim.Seq() < p.advLen+10 {
			time.Sleep(5 * time.Minute) // (the scheduler calls a run stuck after ten idle minutes)
			simrt.EnvPoint("env:patience", false, 0)
		}
		time.Sleep(5 * time.Minute)
	}
	// let the step finish whatever it is doing, then close it for good (every run ends with a close)
	simrt.EnvPoint("env:final-close", true, 0)
	call := &provCall{Idx: len(p.Actions), Act: ProvAction{Op: "close", Client: -1}, Invoke: b.Sim.Seq()}
	p.mu.Lock()
	p.calls = append(p.calls, call)
	p.mu.Unlock()
	b.W.Log(world.Event{Kind: "call", Data: map[string]any{"i": call.Idx, "op": "close", "client": -1}})
	err = rs.Close()
	if b.Sim.Draining() {
		return
	}
	call.Return, call.Returned = b.Sim.Seq(), true
	if err != nil {
		call.Err = err.Error()
	}
	b.W.Log(world.Event{Kind: "return", Data: map[string]any{"i": call.Idx, "op": "close", "err": call.Err}})
	p.final = string(rs.State())
	b.W.Log(world.Event{Kind: "client", Data: map[string]any{"what": "final-state", "state": p.final}})
}

// foreachBody is the loop body of the foreach cases: one plugin step whose outcome the item decides.
var foreachBody = &ir.Program{
	Name: "body.yaml", Item: true, SrcPrefix: "body/",
	Steps: []*ir.Step{{ID: "b0", Kind: "plugin", In: []ir.Field{
		ir.F("a", ir.Ref("input", "v")), ir.F("mode", ir.Ref("input", "mode")), ir.F("dur", ir.Ref("input", "dur")),
	}}},
	Outputs: []ir.Output{{ID: "success", E: ir.Obj(ir.F("r", ir.StepRef("b0", "outputs", "success", "a")))}},
}

// genForeachProvCase draws a loop step driven directly through the provider API.
func genForeachProvCase(t *rapid.T) *Case {
	pc := &ProvCase{Kind: "foreach", Patient: rapid.Bool().Draw(t, "patient")}
	nClients := rapid.IntRange(1, 3).Draw(t, "nclients")
	cl := func() int { return rapid.IntRange(0, nClients-1).Draw(t, "client") }
	enablingArg := map[string]any{}
	switch rapid.IntRange(0, 3).Draw(t, "enabled_kind") {
	case 0:
		enablingArg["enabled"] = false
	case 1:
		enablingArg["enabled"] = true
	}
	genItems := func() []any {
		n := rapid.IntRange(0, 3).Draw(t, "nitems")
		items := make([]any, n)
		for i := range items {
			items[i] = map[string]any{
				"v":    int64(i + 1),
				"mode": rapid.SampledFrom([]string{"ok", "ok", "ok", "err", "hang", "crash"}).Draw(t, "item_mode"),
				"dur":  int64(rapid.SampledFrom([]int{0, 5, 100}).Draw(t, "item_dur")),
			}
		}
		return items
	}
	executeArg := map[string]any{"items": genItems()}
	switch rapid.IntRange(0, 4).Draw(t, "par_kind") {
	case 0:
		executeArg["parallelism"] = int64(1)
	case 1:
		executeArg["parallelism"] = int64(2)
	case 2:
		executeArg["parallelism"] = int64(0) // invalid: must be refused
	}
	skeleton := []ProvAction{
		{Op: "provide", Stage: "enabling", Arg: enablingArg},
		{Op: "provide", Stage: "execute", Arg: executeArg},
	}
	perm := rapid.Permutation(skeleton).Draw(t, "order")
	keep := rapid.IntRange(0, 2).Draw(t, "keep")
	if rapid.IntRange(0, 2).Draw(t, "full") != 0 {
		keep = 2
	}
	var acts []ProvAction
	for i := 0; i < keep; i++ {
		a := perm[i]
		a.Client = cl()
		acts = append(acts, a)
	}
	nExtra := rapid.IntRange(0, 5).Draw(t, "nextra")
	for i := 0; i < nExtra; i++ {
		var a ProvAction
		switch rapid.IntRange(0, 8).Draw(t, "extra_kind") {
		case 0, 1:
			a = ProvAction{Op: "close"}
		case 2:
			a = ProvAction{Op: "force-close"}
		case 3:
			a = skeleton[rapid.IntRange(0, 1).Draw(t, "dup")] // a duplicate provide
		case 4:
			a = ProvAction{Op: "provide", Stage: "execute", Arg: map[string]any{"items": genItems()}} // a second, different item list
		case 5:
			a = ProvAction{Op: "state"}
		case 6:
			a = ProvAction{Op: "stage"}
		case 7:
			a = ProvAction{Op: "provide", Stage: rapid.SampledFrom([]string{"outputs", "failed", "disabled", "closed", "bogus"}).Draw(t, "noinput_stage"), Arg: map[string]any{}}
		default:
			a = ProvAction{Op: "provide", Stage: "execute", Arg: map[string]any{"items": []any{map[string]any{"mode": "ok"}}}} // invalid item: v is missing
		}
		a.Client = cl()
		pos := rapid.IntRange(0, len(acts)).Draw(t, "pos")
		acts = append(acts[:pos], append([]ProvAction{a}, acts[pos:]...)...)
	}
	pc.Actions = acts
	c := &Case{Property: "C12", Profile: "foreach-provider", Class: "P", Prov: pc}
	c.Plan = world.Plan{Run: map[string]world.RunFault{}}
	if rapid.IntRange(0, 5).Draw(t, "conn_fault") == 0 {
		var f world.RunFault
		switch rapid.IntRange(0, 2).Draw(t, "conn_kind") {
		case 0:
			f.KillAtByte = int64(rapid.IntRange(1, 3500).Draw(t, "kill_at"))
		case 1:
			f.SchemaDrop = true
		default:
			f.KillAfterMsgs = rapid.IntRange(1, 2).Draw(t, "kill_msgs")
		}
		c.Plan.Run[foreachBody.Src("b0")] = f
	}
	c.Policy = GenPolicyFor(t, true, "internal/step/foreach/provider.go")
	if c.Policy.PEnv == 0 {
		c.Policy.PEnv = 100
	}
	c.MapMode, c.MapSeed = GenMapOrder(t)
	return c
}

func genProvCase(t *rapid.T) *Case {
	if rapid.IntRange(0, 2).Draw(t, "provider_kind") == 0 {
		return genForeachProvCase(t)
	}
	pc := &ProvCase{NoSignal: rapid.IntRange(0, 3).Draw(t, "nosignal") == 0}
	nClients := rapid.IntRange(1, 3).Draw(t, "nclients")
	cl := func() int { return rapid.IntRange(0, nClients-1).Draw(t, "client") }
	deployArg := map[string]any{}
	switch rapid.IntRange(0, 4).Draw(t, "deploy_kind") {
	case 0:
		deployArg["deploy"] = map[string]any{"deployer_name": "sim", "mode": "fail"}
	case 1:
		deployArg["deploy"] = map[string]any{"deployer_name": "sim", "latency_ms": int64(rapid.SampledFrom([]int{1, 20, 300}).Draw(t, "lat"))}
	case 2:
		deployArg["deploy"] = map[string]any{"deployer_name": "sim", "mode": "hang"}
	}
	enablingArg := map[string]any{}
	switch rapid.IntRange(0, 3).Draw(t, "enabled_kind") {
	case 0:
		enablingArg["enabled"] = false
	case 1:
		enablingArg["enabled"] = true
	}
	mode := rapid.SampledFrom([]string{"ok", "ok", "err", "crash", "hang", "panic", "alt"}).Draw(t, "mode")
	input := map[string]any{"a": int64(1), "mode": mode, "dur": int64(rapid.SampledFrom([]int{0, 5, 100, 3000}).Draw(t, "dur")),
		"on_cancel": rapid.SampledFrom([]string{"finish", "ignore", "crash"}).Draw(t, "on_cancel")}
	startArg := map[string]any{"input": input}
	if rapid.Bool().Draw(t, "closure") {
		startArg["closure_wait_timeout"] = int64(rapid.SampledFrom([]int{0, 10, 200}).Draw(t, "closure_ms"))
	}
	// the skeleton of a full life, in a drawn order
	skeleton := []ProvAction{
		{Op: "provide", Stage: "deploy", Arg: deployArg},
		{Op: "provide", Stage: "enabling", Arg: enablingArg},
		{Op: "provide", Stage: "starting", Arg: startArg},
	}
	perm := rapid.Permutation(skeleton).Draw(t, "order")
	keep := rapid.IntRange(0, 3).Draw(t, "keep")
	if rapid.IntRange(0, 2).Draw(t, "full") != 0 {
		keep = 3
	}
	var acts []ProvAction
	for i := 0; i < keep; i++ {
		a := perm[i]
		a.Client = cl()
		acts = append(acts, a)
	}
	// extras at drawn positions
	nExtra := rapid.IntRange(0, 5).Draw(t, "nextra")
	for i := 0; i < nExtra; i++ {
		var a ProvAction
		switch rapid.IntRange(0, 7).Draw(t, "extra_kind") {
		case 0:
			a = ProvAction{Op: "close"}
		case 1:
			a = ProvAction{Op: "force-close"}
		case 2:
			if !pc.NoSignal {
				a = ProvAction{Op: "provide", Stage: "cancelled", Arg: map[string]any{"stop_if": rapid.Bool().Draw(t, "stop_if")}}
			} else {
				a = ProvAction{Op: "state"}
			}
		case 3:
			a = skeleton[rapid.IntRange(0, 2).Draw(t, "dup")] // a duplicate provide
		case 4:
			a = ProvAction{Op: "state"}
		case 5:
			a = ProvAction{Op: "stage"}
		case 6:
			a = ProvAction{Op: "provide", Stage: rapid.SampledFrom([]string{"running", "outputs", "crashed", "closed", "disabled", "deploy_failed"}).Draw(t, "noinput_stage"), Arg: map[string]any{}}
		default:
			a = ProvAction{Op: "close"}
		}
		a.Client = cl()
		pos := rapid.IntRange(0, len(acts)).Draw(t, "pos")
		acts = append(acts[:pos], append([]ProvAction{a}, acts[pos:]...)...)
	}
	pc.Actions = acts
	c := &Case{Property: "C12", Profile: "plugin-provider", Class: "P", Prov: pc}
	c.Plan = world.Plan{Run: map[string]world.RunFault{}}
	if rapid.IntRange(0, 4).Draw(t, "conn_fault") == 0 {
		var f world.RunFault
		switch rapid.IntRange(0, 2).Draw(t, "conn_kind") {
		case 0:
			f.KillAtByte = int64(rapid.IntRange(1, 3500).Draw(t, "kill_at"))
		case 1:
			f.SchemaDrop = true
		default:
			f.KillAfterMsgs = rapid.IntRange(1, 2).Draw(t, "kill_msgs")
		}
		c.Plan.Run["sim://p"] = f
	}
	c.Policy = GenPolicyFor(t, true, "internal/step/plugin/provider.go")
	if c.Policy.PEnv == 0 {
		c.Policy.PEnv = 100
	}
	c.MapMode, c.MapSeed = GenMapOrder(t)
	return c
}

// leftAlone says whether a loop step case gives the step everything it needs and never closes it
// before the final close (which is only issued once nothing else can happen): enabling and items
// accepted, no item that never ends, no close action.
func (p *ProvCase) leftAlone() bool {
	if !p.Patient {
		return false
	}
	okEnable, okExecute := false, false
	for _, cl := range p.calls {
		a := cl.Act
		if a.Op == "close" || a.Op == "force-close" {
			if cl.Act.Client >= 0 {
				return false
			}
			continue
		}
		if a.Op != "provide" || !cl.Returned || cl.Err != "" {
			continue
		}
		switch a.Stage {
		case "enabling":
			okEnable = true
		case "execute":
			items, _ := a.Arg["items"].([]any)
			for _, it := range items {
				if m, _ := it.(map[string]any); m != nil && m["mode"] == "hang" {
					return false
				}
			}
			okExecute = true
		}
	}
	return okEnable && okExecute
}

// ancestors are the stages from which st can be reached along the lifecycle's NextStages edges.
func (p *ProvCase) ancestors(st string) map[string]bool {
	out := map[string]bool{}
	var walk func(s string)
	walk = func(s string) {
		for from, succ := range p.next {
			if succ[s] && !out[from] {
				out[from] = true
				walk(from)
			}
		}
	}
	walk(st)
	delete(out, st)
	return out
}

type provModelState struct {
	provided string // sorted list of stages whose input was accepted
}

// lifecycleOracle checks the notification history against the lifecycle automaton of the property.
func lifecycleOracle(c *Case, r *harness.Result) []Violation {
	p := c.Prov
	var out []Violation
	add := func(rule, shape, f string, a ...any) {
		out = append(out, viol("C12", rule, shape, f, a...))
	}
	var notes []world.Event
	closeReturn := int64(-1)
	for _, e := range r.Events {
		switch e.Kind {
		case "notify":
			notes = append(notes, e)
		case "return":
			if (e.Data["op"] == "close" || e.Data["op"] == "force-close") && closeReturn < 0 {
				closeReturn = e.Seq
			}
		}
	}
	hist := func() string {
		var b []string
		for _, e := range notes {
			b = append(b, fmt.Sprintf("%v(%v,%v->%v)", e.Data["t"], e.Data["prev"], e.Data["out"], e.Data["stage"]))
		}
		return strings.Join(b, " ")
	}
	finished := map[string]int{}
	impossible := map[string]bool{}
	entered := map[string]bool{}
	current := ""
	firstStage := ""
	if p.Kind == "foreach" {
		current = "enabling" // a loop step is born in its first stage and never announces entering it
		entered[current] = true
		firstStage = current
	}
	currentFailed := false
	completes := 0
	// leaves reports whether a notification may name prev as the stage it leaves
	leaves := func(prev string) bool {
		if current == "" || prev == current {
			return true
		}
		// the stage the step was in has been declared failed: the step moved on to a successor stage
		// without a separate notification (the failure report is the leave notification)
		return currentFailed && p.next[current][prev]
	}
	for i, e := range notes {
		t, _ := e.Data["t"].(string)
		if completes > 0 && t != "fail" {
			add("notification-after-completion", t, "a %s notification follows the completion report: %s", t, hist())
		}
		switch t {
		case "change":
			prev, hasPrev := e.Data["prev"].(string)
			stage, _ := e.Data["stage"].(string)
			if i == 0 && hasPrev && p.Kind != "foreach" {
				add("first-notification-has-previous-stage", "", "the first notification names previous stage %q: %s", prev, hist())
			}
			if hasPrev {
				if !leaves(prev) {
					add("discontinuous", prev+"!="+current, "notification %d leaves stage %q but the step was in %q: %s", i, prev, current, hist())
				}
				if prev != current && impossible[prev] {
					add("entered-impossible-stage", prev, "stage %q was reported impossible and is entered afterwards: %s", prev, hist())
				}
				finished[prev]++
				if out, ok := e.Data["out"].(string); ok && !p.stages[prev][out] {
					add("undeclared-output", prev+"."+out, "stage %q reported output %q which its lifecycle does not declare: %s", prev, out, hist())
				}
			} else if p.Kind == "foreach" && stage == current {
				// the loop step announces whether the stage it has just entered still waits for input
			} else if i != 0 {
				add("discontinuous", "no-previous-stage", "notification %d has no previous stage: %s", i, hist())
			}
			if impossible[stage] {
				add("entered-impossible-stage", stage, "stage %q was reported impossible and is entered afterwards: %s", stage, hist())
			}
			if _, ok := p.stages[stage]; !ok {
				add("unknown-stage", stage, "stage %q is not in the lifecycle", stage)
			}
			entered[stage] = true
			if firstStage == "" {
				firstStage = stage
			}
			current = stage
			currentFailed = false
		case "complete":
			prev, _ := e.Data["prev"].(string)
			completes++
			if !leaves(prev) {
				add("discontinuous", prev+"!="+current, "completion leaves stage %q but the step was in %q: %s", prev, current, hist())
			}
			if prev != current && impossible[prev] {
				add("entered-impossible-stage", prev, "stage %q was reported impossible and is completed afterwards: %s", prev, hist())
			}
			finished[prev]++
			current, currentFailed = prev, false
			if out, ok := e.Data["out"].(string); ok && !p.stages[prev][out] {
				add("undeclared-output", prev+"."+out, "stage %q reported output %q which its lifecycle does not declare: %s", prev, out, hist())
			}
		case "fail":
			stage, _ := e.Data["stage"].(string)
			impossible[stage] = true
			if stage == current {
				currentFailed = true
			}
		}
		if begin, ok := e.Data["begin"].(int64); ok && closeReturn >= 0 && begin > closeReturn {
			add("notification-after-close-returned", t, "a %s notification began at decision %d, after Close/ForceClose had returned at decision %d: %s", t, begin, closeReturn, hist())
		}
	}
	for st, n := range finished {
		if n > 1 {
			add("stage-finished-twice", st, "stage %q was reported finished %d times: %s", st, n, hist())
		}
		if impossible[st] {
			add("finished-and-impossible", st, "stage %q was reported both finished and impossible: %s", st, hist())
		}
	}
	if r.Outcome == "completed" && completes == 1 {
		// a path does not jump: once a stage has been decided (left, or declared impossible), every stage
		// it can only be reached through has been decided too
		var undecided []string
		// (stages that cannot be reached from the stage the step started in - the cancelled stage, which
		// only takes the stop input - are not on any path)
		onPath := map[string]bool{firstStage: true}
		var reach func(s string)
		reach = func(s string) {
			for n := range p.next[s] {
				if !onPath[n] {
					onPath[n] = true
					reach(n)
				}
			}
		}
		reach(firstStage)
		for st := range p.stages {
			if finished[st] > 0 || impossible[st] {
				for anc := range p.ancestors(st) {
					if onPath[anc] && finished[anc] == 0 && !impossible[anc] {
						undecided = append(undecided, anc+" before "+st)
					}
				}
			}
		}
		sort.Strings(undecided)
		if len(undecided) > 0 {
			add("stage-skipped", undecided[0], "the step completed with stages decided whose predecessors were neither left nor declared impossible (%s): %s", strings.Join(undecided, ", "), hist())
		}
	}
	if r.Outcome == "completed" && p.Kind == "foreach" {
		// The loop step is not the subject of the property's "exactly one completion" clause (a loop step
		// that is closed while it waits for its items ends silently); what carries over is: never more than
		// one, and one whenever the step was left alone to run to its end.
		if completes > 1 {
			add("completion-count", fmt.Sprint(completes), "%d completion reports (expected at most one): %s", completes, hist())
		}
		if completes == 0 && p.leftAlone() {
			add("completion-missing", "", "the loop step got both inputs, was not closed before it had every reason to end, and reported no completion: %s", hist())
		}
	} else if r.Outcome == "completed" {
		if completes != 1 && len(notes) > 0 {
			add("completion-count", fmt.Sprint(completes), "%d completion reports (expected exactly one): %s", completes, hist())
		}
	}
	if r.Outcome == "completed" {
		if completes == 1 && p.final != "finished" {
			add("state-after-completion", p.final, "completion was reported but State() is %q after the final Close", p.final)
		}
	}
	return out
}

func provCheck(c *Case, r *harness.Result) []Violation {
	if len(r.Panics) > 0 {
		return []Violation{viol("C12", "panic", panicShape(r.Panics[0].Value, r.Panics[0].Stack), "goroutine %s panicked: %s\n%s", r.Panics[0].G, r.Panics[0].Value, firstLines(r.Panics[0].Stack, 25))}
	}
	p := c.Prov
	var out []Violation
	if r.Outcome == "stuck" || r.Outcome == "exhausted" {
		var pending []string
		for _, cl := range p.calls {
			if !cl.Returned {
				pending = append(pending, fmt.Sprintf("%s(%s)", cl.Act.Op, cl.Act.Stage))
			}
		}
		sort.Strings(pending)
		out = append(out, viol("C12", "call-never-returns", strings.Join(pending, ","), "calls that never returned: %v; goroutines: %s", pending, strings.Join(r.Stuck, " | ")))
		return out
	}
	out = append(out, lifecycleOracle(c, r)...)
	// the call history against the sequential model: per stage the first provide is accepted, later
	// ones are refused; close always succeeds
	var ops []porcupine.Operation
	for _, cl := range p.calls {
		if !cl.Returned || (cl.Act.Op != "provide" && cl.Act.Op != "close" && cl.Act.Op != "force-close") {
			continue
		}
		ops = append(ops, porcupine.Operation{ClientId: cl.Act.Client + 1, Input: cl.Act, Call: cl.Invoke*2 + 0, Output: cl.Err, Return: cl.Return*2 + 1})
	}
	model := porcupine.Model{
		Init: func() interface{} { return "" },
		Step: func(state, input, output interface{}) (bool, interface{}) {
			st := state.(string)
			a := input.(ProvAction)
			errStr := output.(string)
			if a.Op != "provide" {
				if p.Kind == "foreach" && !strings.Contains(st, "|closed") {
					st += "|closed"
				}
				return true, st
			}
			if p.Kind == "foreach" && strings.Contains(st, "|closed") && errStr == "" {
				return true, st // a closed loop step ignores input without complaint
			}
			switch a.Stage {
			case "deploy", "enabling", "starting", "execute":
				key := "|" + a.Stage
				if strings.Contains(st, key) {
					return errStr != "", st // a second provide for the stage must be refused
				}
				if errStr != "" {
					return true, st // refused for another reason (closed, invalid): nothing changes
				}
				return true, st + key
			}
			return true, st
		},
		Equal: func(a, b interface{}) bool { return a.(string) == b.(string) },
	}
	if len(ops) > 0 && len(ops) <= 30 {
		res := porcupine.CheckOperationsTimeout(model, ops, 5*time.Second)
		if res == porcupine.Illegal {
			var hs []string
			for _, cl := range p.calls {
				hs = append(hs, fmt.Sprintf("%d:%s(%s)[%d..%d]=%q", cl.Act.Client, cl.Act.Op, cl.Act.Stage, cl.Invoke, cl.Return, cl.Err))
			}
			out = append(out, viol("C12", "call-history-not-linearizable", "", "the provide/close history has no sequential explanation (same stage input accepted twice?): %s", strings.Join(hs, " ")))
		}
	}
	return out
}

func init() {
	register(&PropDef{ID: "C12", Gen: genProvCase, Check: provCheck})
}
