package check

import (
	"fmt"
	"os"
	"strings"
	"testing"

	"pgregory.net/rapid"
)

// TestCountShapes (VERIF_HUNT=count): how often a generator produces a given textual shape.
func TestCountShapes(t *testing.T) {
	if os.Getenv("VERIF_HUNT") != "count" {
		t.Skip()
	}
	def := Props[os.Getenv("VERIF_PROP")]
	needles := strings.Split(os.Getenv("VERIF_NEEDLES"), "|")
	n, hit := 0, 0
	rapid.Check(t, func(rt *rapid.T) {
		c := def.Gen(rt)
		if c.Program == nil {
			return
		}
		n++
		y := c.Program.YAML()
		all := true
		for _, nd := range needles {
			if !strings.Contains(y, nd) {
				all = false
			}
		}
		if all {
			hit++
		}
	})
	fmt.Printf("COUNT %d of %d programs contain %v\n", hit, n, needles)
}
