package check

import (
	"context"
	"encoding/json"
	"fmt"
	"io"
	"os"
	"path/filepath"
	"regexp"
	"sort"
	"strings"

	log "go.arcalot.io/log/v2"
	"go.flow.arcalot.io/deployer"
	deployerregistry "go.flow.arcalot.io/deployer/registry"
	engine "go.flow.arcalot.io/engine"
	"go.flow.arcalot.io/engine/config"
	"go.flow.arcalot.io/engine/loadfile"
	"go.flow.arcalot.io/engine/zverif/harness"
	"go.flow.arcalot.io/engine/zverif/ir"
	"go.flow.arcalot.io/engine/zverif/ref"
	"go.flow.arcalot.io/engine/zverif/simrt"
	"go.flow.arcalot.io/engine/zverif/world"
	"pgregory.net/rapid"
)

// EngCase is a class E case: the workflow tree is written to disk and run through engine.New.
type EngCase struct {
	RelativeDir bool   `json:"relative_dir"` // pass the context directory as a relative path
	ChdirTo     string `json:"chdir_to"`     // "" | "parent" | "elsewhere": working directory during the run
	// MoveAfterCache changes the working directory between building the file cache and parsing / running:
	// what the cache was built from must not be looked up again relative to the new place.
	MoveAfterCache bool   `json:"move_after_cache,omitempty"`
	MissingFile    string `json:"missing_file,omitempty"`
	Unreadable     string `json:"unreadable,omitempty"`
	// OtherCtxFirst: one engine value serves all runs of the case, and before them it runs another context
	// directory that holds other contents under the same file names (c.Program2): what the engine learnt
	// there must not show in the runs that follow.
	OtherCtxFirst bool `json:"other_ctx_first,omitempty"`
	// BadWorkflowKey damages the `workflow:` key of the first loop of the root file ("missing" | "list" |
	// "number"): direct preparation rejects such a text, and so must the engine API - with an error
	BadWorkflowKey string `json:"bad_workflow_key,omitempty"`
	// results
	runs []engRun
}

type engRun struct {
	how   string
	id    string
	data  any
	isErr bool
	err   string
}

var workflowKeyLine = regexp.MustCompile(`(?m)^    workflow: .*\n`)

// rootText is the root workflow file's text, with the damage of BadWorkflowKey applied.
func (ec *EngCase) rootText(c *Case) string {
	text := c.Program.YAML()
	if ec.BadWorkflowKey == "" {
		return text
	}
	loc := workflowKeyLine.FindStringIndex(text)
	if loc == nil {
		return text
	}
	repl := map[string]string{"missing": "", "list": "    workflow: [\"a.yaml\"]\n", "number": "    workflow: 5\n"}[ec.BadWorkflowKey]
	return text[:loc[0]] + repl + text[loc[1]:]
}

func (ec *EngCase) body(c *Case) func(b *harness.BodyCtx) {
	return func(b *harness.BodyCtx) {
		ec.runs = nil
		root, err := os.MkdirTemp("", "verif-c20-")
		if err != nil {
			panic(fmt.Errorf("harness: %w", err))
		}
		defer os.RemoveAll(root)
		dir := filepath.Join(root, "ctx")
		files := map[string]string{"workflow.yaml": ec.rootText(c)}
		for k, v := range c.Program.Files() {
			files[k] = v
		}
		for name, text := range files {
			if name == ec.MissingFile {
				continue
			}
			full := filepath.Join(dir, name)
			if err := os.MkdirAll(filepath.Dir(full), 0o755); err != nil {
				panic(fmt.Errorf("harness: %w", err))
			}
			if err := os.WriteFile(full, []byte(text), 0o644); err != nil {
				panic(fmt.Errorf("harness: %w", err))
			}
		}
		_ = os.MkdirAll(filepath.Join(root, "elsewhere"), 0o755)
		if ec.Unreadable != "" {
			b.Sim.ReadFileHook = func(path string) (bool, []byte, error) {
				if strings.HasSuffix(path, ec.Unreadable) {
					b.W.Fired("file_unreadable")
					return true, nil, fmt.Errorf("sim: scripted read error for %s", path)
				}
				return false, nil, nil
			}
		}
		cwd, _ := os.Getwd()
		defer os.Chdir(cwd)
		ctxArg := dir
		switch ec.ChdirTo {
		case "parent":
			_ = os.Chdir(root)
		case "elsewhere":
			_ = os.Chdir(filepath.Join(root, "elsewhere"))
		}
		if ec.RelativeDir {
			here, _ := os.Getwd()
			if rel, err := filepath.Rel(here, dir); err == nil {
				ctxArg = rel
			}
		}
		engine.DefaultDeployerRegistry = deployerregistry.New(deployer.Any[*world.SimConfig](world.Factory{W: func() *world.World { return b.W }}))
		cfg := &config.Config{
			LocalDeployers: map[string]any{"sim": map[string]any{"deployer_name": "sim"}},
			Log:            log.Config{Level: log.LevelError, Destination: log.DestinationStdout, Stdout: io.Discard},
		}
		input, _ := json.Marshal(c.Doc)
		startDir, _ := os.Getwd()
		_ = os.MkdirAll(filepath.Join(root, "moved", "ctx"), 0o755)
		var shared engine.WorkflowEngine
		if ec.OtherCtxFirst && c.Program2 != nil {
			dir2 := filepath.Join(root, "ctx2")
			files2 := map[string]string{"workflow.yaml": c.Program2.YAML()}
			for k, v := range c.Program2.Files() {
				files2[k] = v
			}
			for name, text := range files2 {
				full := filepath.Join(dir2, name)
				if err := os.MkdirAll(filepath.Dir(full), 0o755); err != nil {
					panic(fmt.Errorf("harness: %w", err))
				}
				if err := os.WriteFile(full, []byte(text), 0o644); err != nil {
					panic(fmt.Errorf("harness: %w", err))
				}
			}
			flow, err := engine.New(cfg)
			if err != nil {
				panic(fmt.Errorf("harness: engine.New: %w", err))
			}
			shared = flow
			fc2, err := loadfile.NewFileCacheUsingContext(dir2, map[string]string{"workflow": "workflow.yaml"})
			if err == nil {
				err = fc2.LoadContext()
			}
			if err == nil {
				simrt.EnvPoint("env:engine-run-other", false, 0)
				_, _, _, _ = shared.RunWorkflow(context.Background(), input, fc2, "workflow")
				b.W.Fired("engine_reused_after_other_context")
			}
			if b.Sim.Draining() {
				return
			}
		}
		for _, how := range []string{"RunWorkflow", "Parse+Run"} {
			r := engRun{how: how}
			_ = os.Chdir(startDir)
			fc, err := loadfile.NewFileCacheUsingContext(ctxArg, map[string]string{"workflow": "workflow.yaml"})
			if err == nil {
				err = fc.LoadContext()
			}
			if ec.MoveAfterCache {
				_ = os.Chdir(filepath.Join(root, "moved"))
			}
			if err != nil {
				r.err = "file cache: " + err.Error()
				ec.runs = append(ec.runs, r)
				continue
			}
			flow := shared
			if flow == nil {
				flow, err = engine.New(cfg)
				if err != nil {
					panic(fmt.Errorf("harness: engine.New: %w", err))
				}
			}
			simrt.EnvPoint("env:engine-run", false, 0)
			if how == "RunWorkflow" {
				id, data, isErr, err := flow.RunWorkflow(context.Background(), input, fc, "workflow")
				r.id, r.data, r.isErr = id, harness.Canon(data), isErr
				if err != nil {
					r.err = err.Error()
				}
			} else {
				wf, err := flow.Parse(fc, "workflow")
				if err != nil {
					r.err = "parse: " + err.Error()
				} else {
					id, data, isErr, err := wf.Run(context.Background(), input)
					r.id, r.data, r.isErr = id, harness.Canon(data), isErr
					if err != nil {
						r.err = err.Error()
					}
				}
			}
			if b.Sim.Draining() {
				return // released by the teardown of a stuck run
			}
			ec.runs = append(ec.runs, r)
		}
		// the same text prepared and executed directly
		direct := engRun{how: "direct"}
		fm := map[string][]byte{}
		for k, v := range c.Program.Files() {
			if k != ec.MissingFile {
				fm[k] = []byte(v)
			}
		}
		wf, err := b.Env.Prepare(ec.rootText(c), fm)
		if err != nil {
			direct.err = "prepare: " + err.Error()
		} else {
			var in any
			_ = json.Unmarshal(input, &in)
			id, data, err := wf.Execute(context.Background(), in)
			direct.id, direct.data = id, harness.Canon(data)
			if err != nil {
				direct.err = err.Error()
			}
		}
		if b.Sim.Draining() {
			return
		}
		ec.runs = append(ec.runs, direct)
	}
}

func genEngCase(t *rapid.T) *Case {
	prof := &ir.Profile{Name: "c20-tree", ItemsFromStep: 25, MinSteps: 1, MaxSteps: 4, Durs: []int64{0, 1, 5}, Foreach: 60, MaxDepth: 3, Modes: []string{"err"}, PBad: 15, PDisabled: 15, PWaitFor: 30, MaxOutputs: 1}
	doc := ir.GenDoc(t, true, 3)
	prog := ir.GenProgram(t, prof, doc)
	// output ids and explicit schemas: which output is chosen depends on the steps; its error flag on the declaration
	prog.Explicit = map[string]bool{}
	extra := rapid.SampledFrom([]string{"", "error", "fallback", "other"}).Draw(t, "extra_output")
	if extra != "" {
		// an output that is producible whenever the first step does not succeed, or always (simple integer data)
		first := prog.Steps[0]
		var e *ir.Expr
		if first.Kind == "plugin" && rapid.Bool().Draw(t, "extra_on_failure") {
			e = ir.Obj(ir.F("x", ir.Ref("input", "n")), ir.F("why", ir.StepRef(first.ID, "outputs", "error", "reason")))
		} else {
			e = ir.Obj(ir.F("x", ir.Ref("input", "n")))
			if rapid.Bool().Draw(t, "explicit_schema") {
				prog.Explicit[extra] = rapid.Bool().Draw(t, "explicit_error_flag")
			}
			// make the main output impossible so that this one is the result
			if rapid.Bool().Draw(t, "only_extra") {
				prog.Outputs[0].E.Fields = append(prog.Outputs[0].E.Fields, ir.F("never", ir.StepRef(prog.Steps[0].ID, "outputs", "nosuch_never")))
				prog.Outputs = prog.Outputs[1:]
			}
		}
		prog.Outputs = append(prog.Outputs, ir.Output{ID: extra, E: e})
		if _, explicit := prog.Explicit[extra]; explicit && extra != "spare" && rapid.Bool().Draw(t, "second_explicit_output") {
			// several explicitly declared outputs, possibly several error outputs: the flag is the chosen one's
			prog.Outputs = append(prog.Outputs, ir.Output{ID: "spare", E: ir.Obj(ir.F("x", ir.Ref("input", "n")))})
			prog.Explicit["spare"] = rapid.Bool().Draw(t, "spare_error_flag")
		}
	}
	if len(prog.Outputs) == 0 {
		prog.Outputs = []ir.Output{{ID: "success", E: ir.Obj(ir.F("x", ir.Ref("input", "n")))}}
	}
	if rapid.IntRange(0, 3).Draw(t, "rename_success") == 0 && prog.Outputs[0].ID == "success" {
		prog.Outputs[0].ID = "error"
		if _, dup := prog.Explicit["error"]; dup || extra == "error" {
			prog.Outputs[0].ID = "success"
		}
	}
	c := &Case{Property: "C20", Profile: "engine-api", Class: "E", Program: prog, Doc: doc}
	c.Policy = GenPolicy(t, rapid.Bool().Draw(t, "adv"))
	c.MapMode, c.MapSeed = GenMapOrder(t)
	ec := &EngCase{RelativeDir: rapid.Bool().Draw(t, "relative_dir"), ChdirTo: rapid.SampledFrom([]string{"", "parent", "elsewhere"}).Draw(t, "chdir")}
	ec.MoveAfterCache = rapid.IntRange(0, 2).Draw(t, "move_after_cache") == 0
	names := ref.SortedKeys(prog.Files())
	if len(names) > 0 && rapid.IntRange(0, 5).Draw(t, "file_fault") == 0 {
		n := names[rapid.IntRange(0, len(names)-1).Draw(t, "fault_file")]
		if rapid.Bool().Draw(t, "missing_or_unreadable") {
			ec.MissingFile = n
		} else {
			ec.Unreadable = n
		}
	}
	if len(prog.Subs) > 0 && ec.MissingFile == "" && ec.Unreadable == "" && rapid.IntRange(0, 2).Draw(t, "other_ctx_first") == 0 {
		ec.OtherCtxFirst = true
		c.Program2 = otherSubFiles(prog)
	}
	if len(names) > 0 && ec.MissingFile == "" && ec.Unreadable == "" && !ec.OtherCtxFirst && rapid.IntRange(0, 9).Draw(t, "bad_workflow_key") == 0 {
		for _, st := range prog.Steps {
			if st.Kind == "foreach" {
				ec.BadWorkflowKey = rapid.SampledFrom([]string{"missing", "list", "number"}).Draw(t, "bad_workflow_key_kind")
				break
			}
		}
	}
	c.Eng = ec
	return c
}

func engCheck(c *Case, r *harness.Result) []Violation {
	if len(r.Panics) > 0 {
		p := r.Panics[0]
		return []Violation{viol("C20", "panic", panicShape(p.Value, p.Stack), "the engine API panicked: %s\n%s", p.Value, firstLines(p.Stack, 20))}
	}
	if r.Outcome != "completed" {
		return []Violation{viol("C20", "engine-api-hang", "", "the engine API call did not return: %v", r.Stuck)}
	}
	ec := c.Eng
	var out []Violation
	if len(ec.runs) < 3 {
		return nil
	}
	if anyGiveUpWithHeldUpGoroutine(r) {
		// one of the runs was ended by the fallback detector because a goroutine was held up (C09's
		// finding): the three results are then not comparable
		return nil
	}
	doc, derr := c.NormDoc()
	direct := ec.runs[2]
	if ec.BadWorkflowKey != "" {
		for _, run := range ec.runs {
			if run.err == "" {
				out = append(out, viol("C20", "bad-workflow-key-accepted", ec.BadWorkflowKey, "%s succeeded although the workflow key of a loop is %s", run.how, ec.BadWorkflowKey))
			}
		}
		return out
	}
	fileFault := ec.MissingFile != "" || ec.Unreadable != ""
	for _, run := range ec.runs[:2] {
		if fileFault {
			if run.err == "" {
				out = append(out, viol("C20", "file-fault-ignored", "", "%s succeeded although sub-workflow file %s%s is missing/unreadable", run.how, ec.MissingFile, ec.Unreadable))
			}
			continue
		}
		// same result as preparing and executing the same text directly
		if (run.err == "") != (direct.err == "") {
			out = append(out, viol("C20", "differs-from-direct", "", "%s gave (id=%q err=%q) but direct Prepare+Execute gave (id=%q err=%q)", run.how, run.id, run.err, direct.id, direct.err))
			continue
		}
		if run.err != "" {
			continue
		}
		declared := false
		for _, o := range c.Program.Outputs {
			if o.ID == run.id {
				declared = true
			}
		}
		if !declared {
			out = append(out, viol("C20", "undeclared-output", "", "%s returned undeclared output %q", run.how, run.id))
			continue
		}
		// the error flag: explicit schema decides, otherwise the name "error"
		wantErr := run.id == "error"
		if flag, ok := c.Program.Explicit[run.id]; ok {
			wantErr = flag
		}
		if run.isErr != wantErr {
			out = append(out, viol("C20", "error-flag", fmt.Sprintf("id=%s explicit=%v", run.id, c.Program.Explicit), "%s flagged output %q as error=%v, expected %v (explicit schemas: %v)", run.how, run.id, run.isErr, wantErr, c.Program.Explicit))
		}
		if derr == nil {
			f := ref.Natural(c.Program, doc)
			want, ok := f.Producible[run.id]
			if !ok {
				out = append(out, viol("C20", "output-not-producible", "", "%s returned %q but the producible set is %v", run.how, run.id, f.ProducibleIDs()))
			} else if err := ref.Match(want, run.data); err != nil {
				out = append(out, viol("C20", "output-data", "", "%s output %q data %s does not match the reference %s: %v", run.how, run.id, harness.JSON(run.data), modelJSON(want), err))
			}
			if len(f.Producible) == 1 && direct.id != run.id {
				out = append(out, viol("C20", "differs-from-direct", "", "%s returned %q, direct execution returned %q", run.how, run.id, direct.id))
			}
		}
	}
	sort.Slice(out, func(a, b int) bool { return out[a].Msg < out[b].Msg })
	return out
}

func init() {
	register(&PropDef{ID: "C20", Gen: genEngCase, Check: engCheck})
}
