package check

import (
	"encoding/json"
	"flag"
	"fmt"
	"os"
	"strconv"
	"testing"
	"time"

	"go.flow.arcalot.io/engine/zverif/harness"
	"pgregory.net/rapid"
)

// RaceOut is what a race worker reports (a detected race ends the process with exit code 66 and a
// GORACE log; this file then only says which case was running).
type RaceOut struct {
	Worker  int              `json:"worker"`
	Seed    uint64           `json:"seed"`
	Runs    int64            `json:"runs"`
	ByGen   map[string]int64 `json:"by_generator"`
	Panics  []string         `json:"panics,omitempty"`
	Stuck   int64            `json:"stuck"`
	WallS   float64          `json:"wall_s"`
	Samples []any            `json:"samples,omitempty"`
	Current any              `json:"current,omitempty"`
}

// TestRaceWorker runs the workloads of C05/C06/C13/C14 (and provider-level histories) un-serialised
// under the race detector. Environment: VERIF_SEED, VERIF_WORKER, VERIF_BUDGET_S, VERIF_OUT.
func TestRaceWorker(t *testing.T) {
	if os.Getenv("VERIF_RACE") == "" {
		t.Skip("VERIF_RACE not set")
	}
	LoadSites(os.Getenv("VERIF_SITES"))
	seed := uint64(envInt("VERIF_SEED", 1))
	worker := int(envInt("VERIF_WORKER", 0))
	budget := time.Duration(envInt("VERIF_BUDGET_S", 20)) * time.Second
	only := os.Getenv("VERIF_RACE_GEN")
	out := &RaceOut{Worker: worker, Seed: seed, ByGen: map[string]int64{}}
	start := time.Now()
	deadline := start.Add(budget)
	_ = flag.Set("rapid.nofailfile", "true")
	gens := []string{"C14", "C05", "C13", "C06", "C12", "C14", "C15"}
	write := func() {
		out.WallS = time.Since(start).Seconds()
		b, _ := json.Marshal(out)
		if p := os.Getenv("VERIF_OUT"); p != "" {
			_ = os.WriteFile(p, b, 0o644)
		}
	}
	for batch := uint64(0); time.Now().Before(deadline); batch++ {
		rs := mix(seed, uint64(worker), batch)
		_ = flag.Set("rapid.seed", strconv.FormatUint(rs, 10))
		_ = flag.Set("rapid.checks", "10")
		gen := gens[batch%uint64(len(gens))]
		if only != "" {
			gen = only
		}
		def := Props[gen]
		tb := &fakeTB{}
		func() {
			defer func() {
				if r := recover(); r != nil {
					if _, ok := r.(stopWorker); !ok {
						panic(r)
					}
				}
			}()
			rapid.Check(tb, func(rt *rapid.T) {
				if !time.Now().Before(deadline) {
					return
				}
				c := def.Gen(rt)
				sp := harness.RaceSpec{Plan: c.Plan, Clients: c.Clients, Perturb: rs | 1, Prepares: 1 + int(rs%3)}
				if c.Program != nil {
					sp.Text, sp.Files = c.Program.YAML(), c.Program.Files()
				}
				if len(sp.Clients) == 0 {
					sp.Clients = []harness.ClientSpec{{Name: "c0", Input: map[string]any(c.Doc)}}
				}
				if c.Prov != nil {
					sp.Body = c.Prov.Body
				}
				// remember what is running: if the detector halts the process this is the replay input
				out.Current = map[string]any{"generator": gen, "rapid_seed": rs, "case": c}
				write()
				// a subtest, because the testing package ends a test in which the detector reported a race
				var r *harness.RaceResult
				t.Run("case", func(st *testing.T) { r = harness.RunRace(st, sp) })
				if r == nil {
					r = &harness.RaceResult{}
				}
				out.Runs++
				out.ByGen[gen]++
				out.Panics = append(out.Panics, r.Panics...)
				if r.Stuck {
					out.Stuck++
				}
				if len(out.Samples) < 2 && c.Program != nil {
					out.Samples = append(out.Samples, map[string]any{"generator": gen, "workflow_yaml": c.Program.YAML(), "clients": len(sp.Clients), "overlapping_prepares": sp.Prepares})
				}
			})
		}()
		if tb.failed {
			fmt.Printf("HARNESS-ERROR rapid: %v\n", tb.msgs)
			os.Exit(2)
		}
	}
	out.Current = nil
	write()
}
