package check

import (
	"go.flow.arcalot.io/engine/zverif/harness"
	"go.flow.arcalot.io/engine/zverif/ir"
	"go.flow.arcalot.io/engine/zverif/ref"
	"go.flow.arcalot.io/engine/zverif/world"
	"strconv"
	"strings"
)

// Observe builds the observed-world facts of the main program of a run (DESIGN.md §4): the same
// evaluation as the natural model, but every step outcome is taken from what the environment saw
// (deployments, plugin executions with their real inputs and outputs, crashes) instead of being
// predicted. Values the environment cannot see (engine-invented messages) are wildcards.
// Only events up to decision number `upto` are considered (0 = all). Outputs emitted at or after
// decision `shutdown` (0 = never) are marked Maybe: the engine was already closing the run's steps
// and may have dropped them.
func Observe(p *ir.Program, input map[string]any, evs []world.Event, upto int64, shutdown ...int64) *ref.Facts {
	var sd int64
	if len(shutdown) > 0 {
		sd = shutdown[0]
	}
	f := &ref.Facts{P: p, Input: input, Steps: map[string]*ref.StepFacts{}, Producible: map[string]any{}, Pending: map[string]bool{}}
	bySrc := map[string][]world.Event{}
	for _, e := range evs {
		if e.Probe || e.Src == "" || (upto > 0 && e.Seq > upto) {
			continue
		}
		bySrc[e.Src] = append(bySrc[e.Src], e)
	}
	for _, s := range p.Steps {
		sf := &ref.StepFacts{ID: s.ID, Out: map[string]any{}, Stage: map[string]bool{}, At: map[string]int64{}, Maybe: map[string]bool{}}
		f.Steps[s.ID] = sf
		if s.Kind != "plugin" {
			sf.Why = "loops are not observed at this level"
			continue
		}
		var deployOK, started bool
		var deploySeq int64
		for _, e := range bySrc[p.Src(s.ID)] {
			switch e.Kind {
			case world.EvDeployBegin:
				sf.DeployTry = true
			case world.EvDeployFail:
				if e.Data["why"] == "scripted" {
					sf.Out["deploy_failed.error"] = map[string]any{"error": ref.Wild{}}
					sf.At["deploy_failed.error"] = e.Seq
				}
			case world.EvDeployOK:
				deployOK, deploySeq = true, e.Seq
				sf.Deployed = true
			case world.EvExecStart:
				started = true
				sf.Started = true
				if m, ok := harness.Canon(e.Data["input"]).(map[string]any); ok {
					sf.Input = m
				}
			case world.EvExecEnd:
				id, _ := e.Data["output"].(string)
				if id != "" {
					sf.Out["outputs."+id] = harness.Canon(e.Data["data"])
					sf.At["outputs."+id] = e.Seq
					if sd > 0 && e.Seq >= sd {
						sf.Maybe["outputs."+id] = true
					}
				} else {
					sf.Out["crashed.error"] = map[string]any{"output": ref.Wild{}}
					sf.At["crashed.error"] = e.Seq
				}
			case world.EvKill:
				if _, ok := sf.Out["crashed.error"]; !ok && started {
					sf.Out["crashed.error"] = map[string]any{"output": ref.Wild{}}
					sf.At["crashed.error"] = e.Seq
				}
			}
		}
		if deployOK {
			// The engine reports `starting.started` when it hands the work to the ATP client, which the
			// environment cannot see and which can precede the plugin's own exec-start; the deployment is the
			// latest event that certainly precedes it.
			sf.Out["starting.started"] = map[string]any{}
			sf.At["starting.started"] = deploySeq
			// enabling is decided by the engine from the `enabled` expression; evaluate it over what was observed
			enabled := true
			known := true
			if s.Enabled != nil {
				r := f.Eval(s.Enabled)
				if r.St == ref.OK {
					if b, err := ref.ToBool(r.V); err == nil {
						enabled = b
					} else {
						known = false
					}
				} else {
					known = false
				}
			}
			if known {
				sf.Out["enabling.resolved"] = map[string]any{"enabled": enabled}
				sf.At["enabling.resolved"] = deploySeq
				if !enabled && !started {
					sf.Out["disabled.output"] = map[string]any{"message": ref.Wild{}}
					sf.At["disabled.output"] = deploySeq
					if sd > 0 {
						// derived, not observed: in a run that is being torn down the step may have been closed
						// before it got to say that it is disabled
						sf.Maybe["disabled.output"] = true
					}
				}
			}
		}
	}
	return f
}

// producedBefore reports whether every plain (untagged) step reference inside e was produced at a
// decision number smaller than q in the observed facts. It returns the first offending reference.
func producedBefore(f *ref.Facts, e *ir.Expr, q int64) (string, bool) {
	bad := ""
	var walk func(x *ir.Expr)
	walk = func(x *ir.Expr) {
		if x == nil || bad != "" {
			return
		}
		switch x.K {
		case "oneof":
			// at least one option entirely produced before q
			for _, o := range x.Opts {
				if _, ok := producedBefore(f, o.E, q); ok {
					return
				}
			}
			bad = "oneof: no option produced"
			return
		case "opt":
			// an optional reference never forbids a start, but a wait-optional one must have been waited
			// for: if its source was produced in this run at all, that happened before q
			if x.Tag == "wait-optional" {
				ir.Walk(x.Args[0], func(y *ir.Expr) {
					if y.K != "ref" || len(y.Path) < 4 || y.Path[0] != "steps" {
						return
					}
					sf := f.Steps[y.Path[1].(string)]
					if sf == nil {
						return
					}
					if at, ok := sf.At[y.Path[2].(string)+"."+y.Path[3].(string)]; ok && at >= q {
						bad = "wait-optional " + ir.ExprText(y) + " (produced later, at decision " + itoa(at) + ")"
					}
				})
			}
			return
		case "ref":
			if len(x.Path) >= 3 && x.Path[0] == "steps" {
				id, stage := x.Path[1].(string), x.Path[2].(string)
				sf := f.Steps[id]
				if sf == nil {
					bad = ir.ExprText(x)
					return
				}
				if st := f.P.Step(id); st != nil && st.Kind != "plugin" {
					return // loops: judged by C13
				}
				if len(x.Path) == 3 {
					for k, at := range sf.At {
						if len(k) > len(stage) && k[:len(stage)+1] == stage+"." && at < q {
							return
						}
					}
					bad = ir.ExprText(x)
					return
				}
				key := stage + "." + x.Path[3].(string)
				at, ok := sf.At[key]
				if !ok || at >= q {
					bad = ir.ExprText(x)
				}
				return
			}
		}
		for _, a := range x.Args {
			walk(a)
		}
		for _, o := range x.Fields {
			walk(o.E)
		}
		for _, o := range x.Items {
			walk(o)
		}
	}
	walk(e)
	return bad, bad == ""
}

func itoa(i int64) string { return strconv.FormatInt(i, 10) }

var closeFuncs = map[string]bool{"*runningStep.ForceClose": true, "*runningStep.Close": true, "*runningStep.forceClose": true, "*runningStep.closeComponents": true, "*loopState.terminateAllSteps": true}

// ShutdownSeq is the decision at which the goroutine that called Execute for client `name` first
// started closing steps (0 if it never did): from then on the engine is tearing the run down.
func ShutdownSeq(r *harness.Result, name string) int64 {
	// the caller's goroutine itself (normal return, error) or the goroutine it spawns for the purpose
	// after cancellation; goroutines of loop items close their own sub-runs and do not count
	prefix := "env/client/" + name
	for _, d := range r.Journal {
		i := strings.LastIndex(d.Pick, "@")
		if i < 0 || !strings.HasPrefix(d.Pick, prefix) {
			continue
		}
		g, site := d.Pick[:i], d.Pick[i+1:]
		if g != prefix && !strings.HasPrefix(g, prefix+"/workflow/workflow.go:") {
			continue
		}
		if strings.Contains(g, "foreach/") || strings.Contains(g[len(prefix):], "provider.go") {
			continue
		}
		if closeFuncs[SiteFunc[site]] {
			return d.N
		}
	}
	return 0
}
