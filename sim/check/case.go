// Package check holds the per-property generators, oracles, the worker loop and replay.
package check

import (
	"encoding/json"
	"fmt"
	"hash/fnv"
	"os"
	"regexp"
	"sort"
	"strings"
	"testing"

	"go.flow.arcalot.io/engine/zverif/harness"
	"go.flow.arcalot.io/engine/zverif/ir"
	"go.flow.arcalot.io/engine/zverif/ref"
	"go.flow.arcalot.io/engine/zverif/simrt"
	"go.flow.arcalot.io/engine/zverif/world"
	"pgregory.net/rapid"
)

// Case is one generated (or replayed) simulated run: workload, faults, schedule.
type Case struct {
	Property string               `json:"property"`
	Profile  string               `json:"profile"`
	Class    string               `json:"class"` // S1 | S2 | S3 | P | E
	Program  *ir.Program          `json:"program"`
	Doc      ir.Doc               `json:"doc"`
	Plan     world.Plan           `json:"plan"`
	Policy   simrt.PolicySpec     `json:"policy"`
	MapMode  int                  `json:"map_mode"`
	MapSeed  uint64               `json:"map_seed"`
	Clients  []harness.ClientSpec `json:"clients,omitempty"`
	// SecondPrepare: "" | "before" | "during" (see harness.Spec.SecondPrepare).
	SecondPrepare string `json:"second_prepare,omitempty"`
	// RejectedPrepares: that many preparations of a damaged copy of the text (an output referring to a
	// step that does not exist) are made right before the second preparation.
	RejectedPrepares int `json:"rejected_prepares,omitempty"`
	// Program2, when set, is what the second preparation is made from: the same workflow text as Program
	// with other contents in the sub-workflow files it names.
	Program2 *ir.Program      `json:"program2,omitempty"`
	Schedule []simrt.Decision `json:"schedule,omitempty"` // explicit decision list (replay / minimised)
	Extra    map[string]any   `json:"extra,omitempty"`
	Prov     *ProvCase        `json:"prov,omitempty"` // class P: one step provider driven directly
	Prep     *PrepCase        `json:"prep,omitempty"` // preparation-only case (C10, C16)
	Eng      *EngCase         `json:"eng,omitempty"`  // class E: engine API from files on disk (C20)
}

// ShapeKey is the coarse signature of the workload (distinctness measure of the evidence).
func (c *Case) ShapeKey() string {
	if c.Program != nil {
		return ShapeOf(c.Program)
	}
	if c.Prov != nil {
		return c.Prov.Shape()
	}
	return c.Profile
}

// Violation is a failed oracle rule.
type Violation struct {
	Property string `json:"property"`
	Rule     string `json:"rule"`
	Msg      string `json:"msg"`
	Shape    string `json:"shape,omitempty"` // what identifies the failing input / call site (known-findings key)
	// Parts refines Shape with a set of items (for example the kinds of stage outputs the workflow
	// outputs were waiting for); a known finding that lists parts matches only if all of them are listed.
	Parts []string `json:"parts,omitempty"`
}

// Spec turns a case into a harness run.
func (c *Case) Spec(journal bool) harness.Spec {
	sp := harness.Spec{
		Plan:          c.Plan,
		Policy:        c.Policy,
		MapMode:       c.MapMode,
		MapSeed:       c.MapSeed,
		Clients:       c.Clients,
		SecondPrepare: c.SecondPrepare,
		Journal:       journal,
		KeepLogs:      os.Getenv("VERIF_LOGS") != "",
		Watch:         WatchGiveUp,
	}
	if c.Program != nil {
		sp.Text, sp.Files = c.Program.YAML(), c.Program.Files()
		if c.RejectedPrepares > 0 && len(c.Program.Explicit) == 0 {
			// (the outputs section is the last one of the printed text)
			sp.RejectedPrepares = c.RejectedPrepares
			sp.RejectedText = sp.Text + "  zz_refused:\n    x: !expr '$.steps.no_such_step.outputs.success'\n"
		}
	}
	if c.Program2 != nil {
		sp.Files2 = c.Program2.Files()
	}
	if c.Schedule != nil {
		sp.Replay = c.Schedule
	}
	if c.Prov != nil {
		c.Prov.advLen = 0
		if c.Policy.Kind != "fifo" && c.Policy.Kind != "" {
			c.Prov.advLen = c.Policy.L
		}
		sp.Body = c.Prov.Body
		return sp
	}
	if c.Prep != nil {
		sp.Body = c.Prep.body(c)
		return sp
	}
	if c.Eng != nil {
		sp.Body = c.Eng.body(c)
		return sp
	}
	if len(sp.Clients) == 0 {
		sp.Clients = []harness.ClientSpec{{Name: "c0", Input: map[string]any(c.Doc)}}
	}
	return sp
}

// NormDoc is the schema-normalised workflow input of the case.
func (c *Case) NormDoc() (map[string]any, error) {
	return ref.NormalizeInput(false, jsonNorm(map[string]any(c.Doc)).(map[string]any))
}

// jsonNorm maps a JSON round-tripped document onto the model's value types.
func jsonNorm(v any) any {
	switch x := v.(type) {
	case map[string]any:
		out := map[string]any{}
		for k, y := range x {
			out[k] = jsonNorm(y)
		}
		return out
	case []any:
		out := make([]any, len(x))
		for i := range x {
			out[i] = jsonNorm(x[i])
		}
		return out
	case float64:
		if x == float64(int64(x)) {
			return int64(x)
		}
		return x
	case int:
		return int64(x)
	}
	return v
}

// ---------------------------------------------------------------------------------------------
// schedule generation (shared by all properties)

// Sites is the instrumenter's site table (loaded by the worker).
var Sites []string

// SiteFunc and SiteKind map a site to its enclosing function and rewrite kind.
var SiteFunc = map[string]string{}
var SiteKind = map[string]string{}

// WatchGiveUp selects the sync points inside the engine's fallback deadlock detector.
func WatchGiveUp(site string) bool {
	return SiteFunc[site] == "*loopState.checkForDeadlocks" && SiteKind[site] == "yield"
}

// LoadSites reads sites.json.
func LoadSites(path string) {
	b, err := os.ReadFile(path)
	if err != nil {
		return
	}
	var tab struct {
		Sites []struct{ Kind, Site, Func string } `json:"sites"`
	}
	if json.Unmarshal(b, &tab) != nil {
		return
	}
	for _, s := range tab.Sites {
		SiteFunc[s.Site] = s.Func
		SiteKind[s.Site] = s.Kind
		if s.Kind == "go" {
			spawnFunc[shortSite(s.Site)] = s.Func
		}
		switch s.Kind {
		case "lock", "select", "yield", "go":
			if strings.HasPrefix(s.Site, "workflow/workflow.go") || strings.HasPrefix(s.Site, "internal/step/") {
				Sites = append(Sites, s.Site)
			}
		}
	}
	sort.Strings(Sites)
}

// spawnFunc maps the short form of a go-statement site, as it appears in goroutine names
// ("workflow/workflow.go:679"), to the function that contains the statement.
var spawnFunc = map[string]string{}

func shortSite(site string) string {
	parts := strings.Split(site, ":")
	segs := strings.Split(parts[0], "/")
	if len(segs) > 2 {
		segs = segs[len(segs)-2:]
	}
	out := strings.Join(segs, "/")
	if len(parts) > 1 {
		out += ":" + parts[1]
	}
	return out
}

var roleTail = regexp.MustCompile(`[^/]+/[^/]+\.go:\d+`)

// SpawnedIn lists, outermost first, the functions whose go statements the named goroutine descends from.
func SpawnedIn(role string) []string {
	var out []string
	for _, m := range roleTail.FindAllString(role, -1) {
		out = append(out, spawnFunc[m])
	}
	return out
}

var envSites = []string{"env:exec-start", "env:exec-end", "env:deploy", "env:deploy-ok", "env:execute", "env:cancel-signal"}

// GenPolicy draws a scheduler strategy and its parameters (swarm style).
func GenPolicy(t *rapid.T, adversarial bool) simrt.PolicySpec {
	return GenPolicyFor(t, adversarial, "")
}

// GenPolicyFor is GenPolicy with the starvation victims drawn, most of the time, from the schedule
// points of one source file (the code the case is about).
func GenPolicyFor(t *rapid.T, adversarial bool, file string) simrt.PolicySpec {
	sp := simrt.PolicySpec{Seed: rapid.Int64Range(1, 1<<40).Draw(t, "sched_seed")}
	if !adversarial {
		sp.Kind = "fifo"
		return sp
	}
	sp.Kind = rapid.SampledFrom([]string{"fifo", "random", "starve", "pct", "bounded", "starve", "random", "holdat", "holdat"}).Draw(t, "strategy")
	sp.L = rapid.SampledFrom([]int64{400, 100, 1500, 6000}).Draw(t, "adv_len")
	sp.PTime = rapid.SampledFrom([]int{0, 20, 100, 300, 600}).Draw(t, "ptime")
	sp.PSelect = rapid.SampledFrom([]int{0, 100, 500}).Draw(t, "pselect")
	sp.PEnv = rapid.SampledFrom([]int{0, 20, 200}).Draw(t, "penv")
	switch sp.Kind {
	case "pct":
		sp.Depth = rapid.IntRange(1, 3).Draw(t, "pct_depth")
	case "bounded":
		sp.Preemptions = rapid.IntRange(1, 3).Draw(t, "preemptions")
	case "holdat":
		n := rapid.SampledFrom([]int{1, 1, 1, 2}).Draw(t, "holds")
		hi := rapid.SampledFrom([]int64{60, 150, 400, 1000}).Draw(t, "hold_range")
		for i := 0; i < n; i++ {
			sp.HoldAt = append(sp.HoldAt, rapid.Int64Range(1, hi).Draw(t, "hold_at"))
		}
		sort.Slice(sp.HoldAt, func(i, j int) bool { return sp.HoldAt[i] < sp.HoldAt[j] })
		sp.WindowUS = rapid.SampledFrom([]int64{0, 0, 15000, 40000, 200000, 6000000}).Draw(t, "window_us")
		sp.Shuffle = rapid.Bool().Draw(t, "shuffle")
		if rapid.Bool().Draw(t, "hold_after_state") {
			// the delay goes where a step has just claimed a state: the k-th such moment of the run
			sp.HoldState = rapid.IntRange(1, 30).Draw(t, "hold_state")
			sp.HoldAt = nil
			sp.WindowUS = rapid.SampledFrom([]int64{40000, 200000, 200000, 6000000}).Draw(t, "state_window_us")
		}
		if sp.PTime > 100 {
			sp.PTime = 0
		}
	case "starve":
		all := append(append([]string{}, Sites...), envSites...)
		if file != "" && rapid.IntRange(0, 9).Draw(t, "victim_scope") < 7 {
			all = nil
			for _, s := range Sites {
				if strings.HasPrefix(s, file) {
					all = append(all, s)
				}
			}
		}
		if len(all) == 0 {
			all = []string{"provider.go"}
		}
		sp.Victim = rapid.SampledFrom(all).Draw(t, "victim")
		sp.WindowUS = rapid.SampledFrom([]int64{15000, 40000, 200000, 500000, 6000000}).Draw(t, "window_us")
		sp.Each = rapid.Bool().Draw(t, "each")
		sp.Shuffle = rapid.Bool().Draw(t, "shuffle")
		if sp.PTime > 100 {
			sp.PTime = 0
		}
	}
	return sp
}

// GenMapOrder draws the map iteration mode.
func GenMapOrder(t *rapid.T) (int, uint64) {
	mode := rapid.SampledFrom([]int{simrt.MapSorted, simrt.MapRandom, simrt.MapReversed, simrt.MapRandom}).Draw(t, "map_mode")
	return mode, uint64(rapid.Int64Range(1, 1<<40).Draw(t, "map_seed"))
}

// ---------------------------------------------------------------------------------------------
// run statistics

// Stats aggregates what a worker explored (merged by the driver into the evidence file).
type Stats struct {
	Runs          int64            `json:"runs"`
	Decisions     int64            `json:"decisions"`
	SimTimeUS     int64            `json:"sim_time_us"`
	TimePasses    int64            `json:"time_passes"`
	Voluntary     int64            `json:"voluntary_time_passes"`
	Preemptions   int64            `json:"preemptions"`
	SelectChoices int64            `json:"select_choices"`
	MapOrders     int64            `json:"map_orders"`
	Fired         map[string]int64 `json:"faults_fired"`
	Strategies    map[string]int64 `json:"strategies"`
	Profiles      map[string]int64 `json:"profiles"`
	Outcomes      map[string]int64 `json:"outcomes"`
	Probes        map[string]int64 `json:"probes"`
	SitesHit      map[string]int64 `json:"sites_hit"`
	Distinct      map[uint64]bool  `json:"-"`
	DistinctList  []uint64         `json:"distinct"`
	SchedSigs     map[uint64]bool  `json:"-"`
	SchedSigList  []uint64         `json:"sched_sigs"`
	Control       map[uint64]bool  `json:"-"`
	ControlList   []uint64         `json:"control_states"`
	PanicRuns     int64            `json:"runs_with_engine_panic"`
	Samples       []any            `json:"samples"`
}

// NewStats allocates the maps.
func NewStats() *Stats {
	return &Stats{Fired: map[string]int64{}, Strategies: map[string]int64{}, Profiles: map[string]int64{}, Outcomes: map[string]int64{},
		Probes: map[string]int64{}, SitesHit: map[string]int64{}, Distinct: map[uint64]bool{}, SchedSigs: map[uint64]bool{}, Control: map[uint64]bool{}}
}

func hash64(parts ...string) uint64 {
	h := fnv.New64a()
	for _, p := range parts {
		h.Write([]byte(p))
		h.Write([]byte{0})
	}
	return h.Sum64()
}

// ShapeOf is a coarse signature of a program: kinds, modes and reference structure, not literal values.
func ShapeOf(p *ir.Program) string {
	var b strings.Builder
	for _, s := range p.Steps {
		b.WriteString(s.Kind)
		if m := s.Input("mode"); m != nil && m.K == "lit" {
			fmt.Fprintf(&b, ":%v", m.V)
		}
		if s.Deploy != nil {
			b.WriteString(":deploy")
		}
		if s.Enabled != nil {
			b.WriteString(":en")
		}
		if s.WaitFor != nil {
			b.WriteString(":wf")
		}
		if s.StopIf != nil {
			b.WriteString(":stop")
		}
		for _, e := range s.Exprs() {
			b.WriteString("<" + strings.Join(ir.StepRefs(e), ",") + ">")
		}
		b.WriteString(";")
	}
	for _, o := range p.Outputs {
		b.WriteString(o.ID + "<" + strings.Join(ir.StepRefs(o.E), ",") + ">")
	}
	return b.String()
}

// probesOf derives named rare conditions from a run (the evidence's `probes`: a probe stuck at
// zero means the workload or fault mix never reached that condition).
func probesOf(c *Case, r *harness.Result) []string {
	var out []string
	has := func(k string) bool { return r.Fired[k] > 0 }
	if c.RejectedPrepares > 0 {
		out = append(out, "refused_preparations_before_the_second")
	}
	if c.SecondPrepare != "" {
		out = append(out, "second_preparation_"+c.SecondPrepare)
		// did the second preparation overlap a run?
		var b2, e2 int64
		for _, e := range r.Events {
			if e.Kind == world.EvClient {
				switch e.Data["what"] {
				case "prepare2-begin":
					b2 = e.Seq
				case "prepare2-end":
					e2 = e.Seq
				}
			}
		}
		for _, cl := range r.Clients {
			if b2 > 0 && e2 > 0 && cl.StartSeq < e2 && (cl.EndSeq == 0 || cl.EndSeq > b2) {
				out = append(out, "second_preparation_overlapped_a_run")
				break
			}
		}
	}
	if c.Prov != nil && c.Prov.Kind == "foreach" {
		out = append(out, "foreach_provider_case")
		if c.Prov.Patient {
			out = append(out, "foreach_provider_patient_case")
		}
	}
	if has("caller_cancel") {
		out = append(out, "caller_cancelled")
		executing := false
		started := map[int]bool{}
		for _, e := range r.Events {
			switch e.Kind {
			case "exec-start":
				started[e.Dep] = true
			case "exec-end":
				delete(started, e.Dep)
			case "client":
				if e.Data["what"] == "cancel" && len(started) > 0 {
					executing = true
				}
			}
		}
		if executing {
			out = append(out, "cancel_while_a_plugin_executes")
		}
		if has("cancel_during_deploy") {
			out = append(out, "cancel_during_deploy")
		}
	}
	if len(r.Snapshots) > 0 {
		out = append(out, "fallback_detector_gave_up")
	}
	if detectorRetry(r) {
		out = append(out, "deadlock_retry_fired")
	}
	if has("plugin_ignores_cancel") {
		out = append(out, "closure_timeout_path")
	}
	if r.Stats.VoluntaryTime > 0 && r.Stats.Preemptions > 0 {
		out = append(out, "starved_and_preempted")
	}
	if len(r.Clients) > 1 {
		overlap := false
		for i, a := range r.Clients {
			for j, b := range r.Clients {
				if i < j && a.Returned && b.Returned && a.StartSeq < b.EndSeq && b.StartSeq < a.EndSeq {
					overlap = true
				}
			}
		}
		if overlap {
			out = append(out, "runs_overlapped")
		}
	}
	for _, cl := range r.Clients {
		if cl.Returned && cl.Err == "" {
			out = append(out, "run_returned_output")
		}
		if cl.Returned && cl.Err != "" {
			out = append(out, "run_returned_error:"+cl.ErrClass)
		}
	}
	if r.PrepareErr != "" {
		out = append(out, "prepare_rejected")
	}
	if r.Stats.Divergences > 0 {
		out = append(out, "replay_divergence")
	}
	return out
}

func detectorRetry(r *harness.Result) bool {
	for site, n := range r.SitesHit {
		if n > 0 && SiteFunc[strings.TrimPrefix(site, "go:")] == "*loopState.checkForDeadlocks" && SiteKind[strings.TrimPrefix(site, "go:")] == "go" {
			return true
		}
	}
	return false
}

// Add accounts one run.
func (st *Stats) Add(c *Case, r *harness.Result) {
	st.Runs++
	for _, p := range probesOf(c, r) {
		st.Probes[p]++
	}
	st.Decisions += r.Stats.Decisions
	st.SimTimeUS += int64(r.Stats.SimTime.Microseconds())
	st.TimePasses += r.Stats.TimePasses
	st.Voluntary += r.Stats.VoluntaryTime
	st.Preemptions += r.Stats.Preemptions
	st.SelectChoices += r.Stats.SelectChoices
	st.MapOrders += r.Stats.MapOrders
	for k, v := range r.Fired {
		st.Fired[k] += int64(v)
	}
	st.Strategies[c.Policy.Kind]++
	st.Profiles[c.Profile]++
	st.Outcomes[r.Outcome]++
	for k, v := range r.SitesHit {
		st.SitesHit[k] += int64(v)
	}
	for _, h := range r.Control {
		st.Control[h] = true
	}
	if len(r.Panics) > 0 {
		st.PanicRuns++
	}
	// schedule signature: the sequence of decisions by name
	var sb strings.Builder
	for _, d := range r.Journal {
		sb.WriteString(d.Pick)
		sb.WriteByte('|')
	}
	sig := hash64(sb.String())
	st.SchedSigs[sig] = true
	// outcome vector: which plugin executions ended how
	var ov []string
	for _, e := range r.Events {
		if e.Kind == world.EvExecEnd || e.Kind == world.EvDeployFail {
			ov = append(ov, fmt.Sprintf("%s:%s:%v", e.Src, e.Kind, e.Data["output"]))
		}
	}
	sort.Strings(ov)
	nontrivial := r.Stats.Preemptions+r.Stats.VoluntaryTime+r.Stats.SelectChoices+r.Stats.MapOrders > 0
	reached := false
	for _, e := range r.Events {
		if e.Kind == world.EvExecStart {
			reached = true
			break
		}
	}
	if c.Eng != nil {
		ov = append(ov, fmt.Sprint(*c.Eng))
	}
	if c.Prep != nil {
		reached = true
		nontrivial = true
		ov = append(ov, c.Prep.Corruption, fmt.Sprint(c.Prep.Variants))
	}
	if c.Prov != nil {
		reached = true
		for _, e := range r.Events {
			if e.Kind == "notify" {
				ov = append(ov, fmt.Sprintf("%v:%v:%v", e.Data["t"], e.Data["prev"], e.Data["out"]))
			}
		}
	}
	if nontrivial && reached {
		st.Distinct[hash64(c.ShapeKey(), strings.Join(ov, ","), fmt.Sprint(sig))] = true
	}
}

// Finalize turns the sets into lists for JSON.
func (st *Stats) Finalize() {
	for k := range st.Distinct {
		st.DistinctList = append(st.DistinctList, k)
	}
	for k := range st.SchedSigs {
		st.SchedSigList = append(st.SchedSigList, k)
	}
	for k := range st.Control {
		st.ControlList = append(st.ControlList, k)
	}
}

// RunCase executes the case once.
func RunCase(t *testing.T, c *Case, journal bool) *harness.Result {
	return harness.Run(t, c.Spec(journal))
}
