package check

import (
	"encoding/json"
	"os"
	"strconv"
	"testing"

	"go.flow.arcalot.io/engine/zverif/harness"
)

func TestDetDiff(t *testing.T) {
	seed, _ := strconv.Atoi(os.Getenv("DET_SEED"))
	var first *harness.Result
	var fh string
	for rep := 0; rep < 10; rep++ {
		r := harness.Run(t, smokeSpec(int64(seed)))
		h := hashResult(r)
		if first == nil {
			first, fh = r, h
			continue
		}
		if h != fh {
			a, _ := json.MarshalIndent(map[string]any{"c": first.Clients, "e": first.Events, "j": first.Journal}, "", " ")
			b, _ := json.MarshalIndent(map[string]any{"c": r.Clients, "e": r.Events, "j": r.Journal}, "", " ")
			os.WriteFile("/tmp/det_a.json", a, 0o644)
			os.WriteFile("/tmp/det_b.json", b, 0o644)
			t.Fatalf("diverged at rep %d", rep)
		}
	}
}
