package check

import (
	"encoding/json"
	"fmt"
	"regexp"
	"sort"
	"strings"

	"go.flow.arcalot.io/engine/workflow"
	"go.flow.arcalot.io/engine/zverif/harness"
	"go.flow.arcalot.io/engine/zverif/ir"
	"go.flow.arcalot.io/engine/zverif/simrt"
	"go.flow.arcalot.io/engine/zverif/world"
	"go.flow.arcalot.io/pluginsdk/schema"
	"pgregory.net/rapid"
)

// PrepVariant is one way of writing and preparing the same program.
type PrepVariant struct {
	MapMode int    `json:"map_mode"`
	MapSeed uint64 `json:"map_seed"`
	Perm    int64  `json:"perm"`             // seed of the textual permutation of steps / outputs (0 = as generated)
	Rename  bool   `json:"rename"`           // consistently rename every step
	Scheme  int    `json:"scheme,omitempty"` // naming scheme of the renaming (see renameProgram)
}

// PrepCase is a preparation-only case (C10, C16).
type PrepCase struct {
	Variants   []PrepVariant `json:"variants"`
	Corruption string        `json:"corruption,omitempty"`
	// results (not part of the replay input)
	res []prepResult
}

type prepResult struct {
	err      string
	dag      []string // canonical edges and nodes
	outputs  string
	ns       string
	edgesFor map[string][]string // consumer node -> sorted "source|pathkind"
	life     []string
	yaml     string
}

var inferredRe = regexp.MustCompile(`[a-z_]+_[a-z0-9]{32}`)

// renameProgram renames every step consistently. Scheme 0 gives unrelated names; 1 and 2 give names that
// are prefixes of one another (zzq, zzqx, zzqxx ...), later steps getting the longer (1) or the shorter
// (2) ones: a name must be an identifier, never a prefix to match on.
func renameProgram(p *ir.Program, scheme int) (*ir.Program, map[string]string) {
	q := p.Clone()
	back := map[string]string{}
	fwd := map[string]string{}
	for i, s := range q.Steps {
		n := fmt.Sprintf("zz_%d_%s", len(q.Steps)-i, s.ID)
		switch scheme {
		case 1:
			n = "zzq" + strings.Repeat("x", i)
		case 2:
			n = "zzq" + strings.Repeat("x", len(q.Steps)-1-i)
		}
		fwd[s.ID] = n
		back[n] = s.ID
	}
	var fix func(e *ir.Expr)
	fix = func(e *ir.Expr) {
		ir.Walk(e, func(x *ir.Expr) {
			if x.K == "ref" && len(x.Path) >= 2 && x.Path[0] == "steps" {
				if n, ok := fwd[x.Path[1].(string)]; ok {
					x.Path[1] = n
				}
			}
		})
	}
	for _, s := range q.Steps {
		for _, f := range s.In {
			fix(f.E)
		}
		fix(s.WaitFor)
		fix(s.Enabled)
		fix(s.StopIf)
		fix(s.Items)
		fix(s.Parallelism)
		if s.Deploy != nil {
			fix(s.Deploy.Latency)
			fix(s.Deploy.Mode)
		}
	}
	for _, o := range q.Outputs {
		fix(o.E)
	}
	// plugin sources stay the same (they identify the plugin, not the step)
	for _, s := range q.Steps {
		s.SrcOverride = p.Src(s.ID)
		s.ID = fwd[s.ID]
	}
	return q, back
}

func permuteProgram(p *ir.Program, seed int64) *ir.Program {
	if seed == 0 {
		return p
	}
	q := p.Clone()
	rot := func(n int) int {
		if n == 0 {
			return 0
		}
		return int(uint64(seed) % uint64(n))
	}
	// reverse or rotate steps and outputs, and reverse the fields of step inputs and outputs
	if seed%2 == 1 {
		for i, j := 0, len(q.Steps)-1; i < j; i, j = i+1, j-1 {
			q.Steps[i], q.Steps[j] = q.Steps[j], q.Steps[i]
		}
	} else {
		k := rot(len(q.Steps))
		q.Steps = append(q.Steps[k:], q.Steps[:k]...)
	}
	k := rot(len(q.Outputs))
	q.Outputs = append(q.Outputs[k:], q.Outputs[:k]...)
	for _, s := range q.Steps {
		for i, j := 0, len(s.In)-1; i < j; i, j = i+1, j-1 {
			s.In[i], s.In[j] = s.In[j], s.In[i]
		}
	}
	for _, o := range q.Outputs {
		if o.E.K == "obj" {
			fs := o.E.Fields
			for i, j := 0, len(fs)-1; i < j; i, j = i+1, j-1 {
				fs[i], fs[j] = fs[j], fs[i]
			}
		}
	}
	return q
}

func unrename(s string, back map[string]string) string {
	if len(back) == 0 {
		return s
	}
	names := make([]string, 0, len(back))
	for n := range back {
		names = append(names, n)
	}
	sort.Slice(names, func(a, b int) bool { return len(names[a]) > len(names[b]) })
	for _, n := range names {
		s = strings.ReplaceAll(s, n, back[n])
	}
	return s
}

func canonSchema(v any) string {
	return inferredRe.ReplaceAllString(harness.JSON(v), "GENID")
}

// canonRenamed renders v canonically after undoing a step renaming (map keys are re-sorted).
func canonRenamed(v any, back map[string]string) string {
	s := unrename(canonSchema(v), back)
	var x any
	if err := json.Unmarshal([]byte(s), &x); err != nil {
		return s
	}
	b, _ := json.Marshal(x)
	return string(b)
}

// pathKinds walks from a consumer node through dependency-group nodes to real source nodes.
func pathKinds(nodes map[string]dagNode, id string) []string {
	var out []string
	var walk func(cur string, path []string)
	walk = func(cur string, path []string) {
		for dep, ty := range nodes[cur].deps {
			p := append(append([]string{}, path...), ty)
			if nodes[dep].kind == string(workflow.DagItemKindDependencyGroup) {
				walk(dep, p)
				continue
			}
			out = append(out, dep+"|"+classifyPath(p))
		}
	}
	walk(id, nil)
	sort.Strings(out)
	return out
}

// classifyPath names the way from a consumer to a source by the groups it passes: entering a one-of
// option is `and,or`, a wait-optional group `completion-and`, a soft-optional group `optional`; the
// last hop to the source is a plain `and`. Nested tags give compound names (one-of>soft-optional).
func classifyPath(p []string) string {
	if len(p) == 1 && p[0] == "completion-and" {
		return "completion"
	}
	var kinds []string
	i := 0
	for i < len(p)-1 {
		switch {
		case p[i] == "and" && p[i+1] == "or":
			kinds = append(kinds, "one-of")
			i += 2
		case p[i] == "completion-and":
			kinds = append(kinds, "wait-optional")
			i++
		case p[i] == "optional":
			kinds = append(kinds, "soft-optional")
			i++
		default:
			return strings.Join(p, ",")
		}
	}
	if i != len(p)-1 || p[i] != "and" {
		return strings.Join(p, ",")
	}
	if len(kinds) == 0 {
		return "required"
	}
	return strings.Join(kinds, ">")
}

func composeKind(outer, tag string) string {
	if outer == "required" {
		return tag
	}
	return outer + ">" + tag
}

type dagNode struct {
	kind string
	deps map[string]string
}

func readDAG(wf workflow.ExecutableWorkflow) map[string]dagNode {
	out := map[string]dagNode{}
	for id, n := range wf.DAG().ListNodes() {
		dn := dagNode{kind: string(n.Item().Kind), deps: map[string]string{}}
		for d, ty := range n.OutstandingDependencies() {
			dn.deps[d] = string(ty)
		}
		out[id] = dn
	}
	return out
}

// expectedRefs derives, from the IR alone, what every consumer node must depend on.
func expectedRefs(p *ir.Program) map[string][]string {
	out := map[string][]string{}
	add := func(consumer string, e *ir.Expr) {
		if e == nil {
			return
		}
		var walk func(x *ir.Expr, kind string)
		walk = func(x *ir.Expr, kind string) {
			if x == nil {
				return
			}
			switch x.K {
			case "ref":
				src := ""
				if len(x.Path) > 0 && x.Path[0] == "input" {
					src = "input"
				} else if len(x.Path) >= 3 && x.Path[0] == "steps" {
					src = "steps." + x.Path[1].(string) + "." + x.Path[2].(string)
					if len(x.Path) >= 4 {
						if s, ok := x.Path[3].(string); ok {
							src += "." + s
						}
					}
				}
				if src != "" {
					out[consumer] = append(out[consumer], src+"|"+kind)
				}
				return
			case "oneof":
				for _, o := range x.Opts {
					walk(o.E, composeKind(kind, "one-of"))
				}
				return
			case "opt":
				switch x.Tag {
				case "ordisabled":
					inner := x.Args[0]
					walk(inner, composeKind(kind, "one-of"))
					out[consumer] = append(out[consumer], "steps."+inner.Path[1].(string)+".disabled.output|"+composeKind(kind, "one-of"))
				default:
					walk(x.Args[0], composeKind(kind, x.Tag))
				}
				return
			}
			for _, a := range x.Args {
				walk(a, kind)
			}
			for _, f := range x.Fields {
				walk(f.E, kind)
			}
			for _, it := range x.Items {
				walk(it, kind)
			}
		}
		walk(e, "required")
	}
	for _, s := range p.Steps {
		pre := "steps." + s.ID + "."
		if s.Kind == "foreach" {
			add(pre+"execute", s.Items)
			add(pre+"execute", s.Parallelism)
			add(pre+"execute", s.WaitFor)
			add(pre+"enabling", s.Enabled)
			continue
		}
		add(pre+"starting", ir.Obj(s.In...))
		add(pre+"starting", s.WaitFor)
		add(pre+"enabling", s.Enabled)
		add(pre+"cancelled", s.StopIf)
		if s.Deploy != nil {
			add(pre+"deploy", s.Deploy.Latency)
			add(pre+"deploy", s.Deploy.Mode)
		}
	}
	for _, o := range p.Outputs {
		add("outputs."+o.ID, o.E)
	}
	for k := range out {
		sort.Strings(out[k])
		out[k] = dedup(out[k])
	}
	return out
}

func dedup(s []string) []string {
	var out []string
	for i, x := range s {
		if i == 0 || x != s[i-1] {
			out = append(out, x)
		}
	}
	return out
}

// Body prepares every variant and records canonical forms.
func (pc *PrepCase) body(c *Case) func(b *harness.BodyCtx) {
	return func(b *harness.BodyCtx) {
		pc.res = nil
		for _, v := range pc.Variants {
			prog := permuteProgram(c.Program, v.Perm)
			back := map[string]string{}
			if v.Rename {
				prog, back = renameProgram(prog, v.Scheme)
			}
			b.Sim.SetMapOrder(v.MapMode, v.MapSeed)
			files := map[string][]byte{}
			for k, t := range c.Program.Files() {
				files[k] = []byte(t)
			}
			simrt.EnvPoint("env:prepare", false, 0)
			b.W.Log(world.Event{Kind: world.EvClient, Data: map[string]any{"what": "prepare-begin"}})
			wf, err := b.Env.Prepare(prog.YAML(), files)
			if b.Sim.Draining() {
				return // released by the teardown of a stuck run
			}
			simrt.EnvPoint("env:prepared", false, 0)
			b.W.Log(world.Event{Kind: world.EvClient, Data: map[string]any{"what": "prepare-end", "ok": err == nil}})
			r := prepResult{yaml: prog.YAML()}
			if err != nil {
				r.err = err.Error()
				pc.res = append(pc.res, r)
				continue
			}
			nodes := readDAG(wf)
			r.edgesFor = map[string][]string{}
			for id, n := range nodes {
				if n.kind == string(workflow.DagItemKindDependencyGroup) {
					continue
				}
				r.dag = append(r.dag, unrename("node "+id+" "+n.kind, back))
				for _, e := range pathKinds(nodes, id) {
					r.dag = append(r.dag, unrename("edge "+id+" <- "+e, back))
					r.edgesFor[unrename(id, back)] = append(r.edgesFor[unrename(id, back)], unrename(e, back))
				}
			}
			sort.Strings(r.dag)
			for k := range r.edgesFor {
				sort.Strings(r.edgesFor[k])
			}
			outs := map[string]any{}
			for id, o := range wf.OutputSchema() {
				ser, serr := o.SchemaValue.(*schema.ScopeSchema).SelfSerialize()
				if serr != nil {
					ser = "unserializable: " + serr.Error()
				}
				outs[id] = map[string]any{"error": o.Error(), "schema": ser}
			}
			r.outputs = canonRenamed(outs, back)
			nsm := map[string]any{}
			for path, objs := range wf.Namespaces() {
				var ids []string
				for id, obj := range objs {
					var props []string
					for pn, pv := range obj.Properties() {
						props = append(props, pn+":"+string(pv.Type().TypeID()))
					}
					sort.Strings(props)
					ids = append(ids, id+"{"+strings.Join(props, ",")+"}")
				}
				sort.Strings(ids)
				nsm[path] = ids
			}
			r.ns = canonRenamed(nsm, back)
			// the providers' lifecycles, for the structural check
			for kind, prov := range b.Env.Steps.List() {
				for _, st := range prov.Lifecycle().Stages {
					for nx, ty := range st.NextStages {
						r.life = append(r.life, fmt.Sprintf("%s|%s|%s|%s", kind, st.ID, nx, ty))
					}
				}
			}
			sort.Strings(r.life)
			pc.res = append(pc.res, r)
		}
	}
}

func genPrepVariants(t *rapid.T, n int, permute, rename bool) []PrepVariant {
	var vs []PrepVariant
	for i := 0; i < n; i++ {
		v := PrepVariant{MapMode: rapid.SampledFrom([]int{simrt.MapSorted, simrt.MapRandom, simrt.MapReversed, simrt.MapRandom}).Draw(t, "v_map_mode"),
			MapSeed: uint64(rapid.Int64Range(1, 1<<40).Draw(t, "v_map_seed"))}
		if permute && i > 0 {
			v.Perm = rapid.Int64Range(0, 1000).Draw(t, "v_perm")
		}
		if rename && i > 0 {
			v.Rename = rapid.Bool().Draw(t, "v_rename")
			if v.Rename {
				v.Scheme = rapid.IntRange(0, 2).Draw(t, "v_rename_scheme")
			}
		}
		vs = append(vs, v)
	}
	return vs
}

var prepProfiles = []*ir.Profile{
	{Name: "prep-mixed", MinSteps: 1, MaxSteps: 6, Durs: []int64{0, 5}, Modes: []string{"err"}, PBad: 10, PDeployFail: 10, PDeploySlow: 30, PDisabled: 30, PWaitFor: 50, MaxOutputs: 3, ErrOutput: true, PErrPathRef: 20, DeepExpr: true, PluginArith: true, StructRefs: true, PDeployExpr: 30},
	{Name: "prep-tags", MinSteps: 2, MaxSteps: 5, Durs: []int64{0}, Tags: true, PDisabled: 40, PWaitFor: 30, MaxOutputs: 2},
	{Name: "prep-tags-nested", MinSteps: 2, MaxSteps: 4, Durs: []int64{0}, Tags: true, SoftHang: true, PDisabled: 30, PWaitFor: 20, MaxOutputs: 2},
	{Name: "prep-loops", ItemsFromStep: 30, MinSteps: 1, MaxSteps: 4, Durs: []int64{0}, Foreach: 50, PWaitFor: 30, PDisabled: 20, MaxOutputs: 2, ErrOutput: true},
	{Name: "prep-stop", MinSteps: 1, MaxSteps: 3, Durs: []int64{0}, StopIf: true, PWaitFor: 30},
}

func genPrepCase(t *rapid.T, prop string) *Case {
	prof := pickProfile(t, prepProfiles)
	doc := ir.GenDoc(t, prof.Foreach > 0, 3)
	prog := ir.GenProgram(t, prof, doc)
	c := &Case{Property: prop, Profile: prof.Name, Class: "prep", Program: prog, Doc: doc}
	c.Policy = simrt.PolicySpec{Kind: "fifo", Seed: 1}
	c.Prep = &PrepCase{}
	return c
}

// corrupt applies one single-point corruption that must make Prepare reject the workflow.
func corrupt(t *rapid.T, p *ir.Program) (string, bool) {
	var plug []*ir.Step
	for _, s := range p.Steps {
		if s.Kind == "plugin" {
			plug = append(plug, s)
		}
	}
	if len(plug) == 0 {
		return "", false
	}
	s := plug[rapid.IntRange(0, len(plug)-1).Draw(t, "corrupt_step")]
	kind := rapid.SampledFrom([]string{"dangling-step", "dangling-output", "dangling-stage", "dangling-input-field", "wrong-literal-type", "missing-required-input", "self-cycle", "back-edge", "dangling-output-ref", "unknown-input-key", "missing-input-key", "missing-input-key", "oneof-discriminator-is-a-field", "oneof-option-not-an-object", "bare-root-expression", "input-ref-to-undeclared-object", "declared-output-schema-does-not-fit"}).Draw(t, "corruption")
	switch kind {
	case "dangling-step":
		s.In = setFieldIR(s.In, "a", ir.StepRef("nosuchstep", "outputs", "success", "a"))
	case "dangling-output":
		s.In = setFieldIR(s.In, "a", ir.StepRef(plug[0].ID, "outputs", "nosuchoutput", "a"))
		if s == plug[0] {
			p.Outputs[0].E = ir.Obj(ir.F("x", ir.StepRef(plug[0].ID, "outputs", "nosuchoutput", "a")))
		}
	case "dangling-stage":
		p.Outputs[0].E = ir.Obj(ir.F("x", ir.StepRef(s.ID, "nosuchstage", "result")))
	case "dangling-input-field":
		s.In = setFieldIR(s.In, "a", ir.Ref("input", "nosuchfield"))
	case "wrong-literal-type":
		s.In = setFieldIR(s.In, "a", ir.Lit("not-a-number"))
	case "missing-required-input":
		var fs []ir.Field
		for _, f := range s.In {
			if f.Name != "a" {
				fs = append(fs, f)
			}
		}
		s.In = fs
	case "self-cycle":
		s.In = setFieldIR(s.In, "a", ir.StepRef(s.ID, "outputs", "success", "a"))
	case "back-edge":
		if len(plug) < 2 {
			return "", false
		}
		first, last := plug[0], plug[len(plug)-1]
		last.In = setFieldIR(last.In, "a", ir.StepRef(first.ID, "outputs", "success", "a"))
		first.In = setFieldIR(first.In, "a", ir.StepRef(last.ID, "outputs", "success", "a"))
	case "dangling-output-ref":
		p.Outputs[0].E = ir.Obj(ir.F("x", ir.StepRef("ghost", "outputs", "success")))
	case "missing-input-key":
		// the whole `input` key of one step is missing while other steps have theirs
		if len(plug) < 2 {
			return "", false
		}
		s.NoInputKey = true
	case "unknown-input-key":
		s.In = append(s.In, ir.F("nosuchparam", ir.Lit(int64(1))))
	case "oneof-discriminator-is-a-field":
		// the discriminator would overwrite (or be overwritten by) a field of the option's data
		p.Outputs[0].E = ir.Obj(ir.F("pick", ir.OneOf("a", ir.F("x", ir.StepRef(s.ID, "outputs", "success")), ir.F("off", ir.StepRef(s.ID, "disabled", "output")))))
	case "bare-root-expression":
		// `$` alone refers to the whole data model: nothing a node can depend on
		if rapid.Bool().Draw(t, "bare_root_in_wait_for") {
			s.WaitFor = ir.Ref()
		} else {
			p.Outputs[0].E = ir.Obj(ir.F("x", ir.Ref()))
		}
	case "declared-output-schema-does-not-fit":
		// an output with a declared schema {x: integer} whose data puts a string there
		if p.Explicit == nil {
			p.Explicit = map[string]bool{}
		}
		// (with a declared schema every output has to be declared: this is the only one)
		p.Explicit = map[string]bool{"typed": false}
		p.Outputs = []ir.Output{{ID: "typed", E: ir.Obj(ir.F("x", ir.Ref("input", "tag")))}}
	case "input-ref-to-undeclared-object":
		p.DanglingInputRef = true
	case "oneof-option-not-an-object":
		// an option must be an object (the discriminator is added to it)
		p.Outputs[0].E = ir.Obj(ir.F("pick", ir.OneOf("kind", ir.F("x", ir.StepRef(s.ID, "outputs", "success")), ir.F("n", ir.StepRef(s.ID, "outputs", "success", "a")))))
	}
	return kind, true
}

func setFieldIR(fs []ir.Field, name string, e *ir.Expr) []ir.Field {
	for i := range fs {
		if fs[i].Name == name {
			fs[i].E = e
			return fs
		}
	}
	return append(fs, ir.F(name, e))
}

func init() {
	// ---- C16: preparation is deterministic and insensitive to naming and ordering ----
	register(&PropDef{ID: "C16",
		Gen: func(t *rapid.T) *Case {
			c := genPrepCase(t, "C16")
			c.Prep.Variants = genPrepVariants(t, rapid.IntRange(3, 6).Draw(t, "nvariants"), true, true)
			if rapid.IntRange(0, 3).Draw(t, "c16_corrupt") == 0 {
				if k, ok := corrupt(t, c.Program); ok {
					c.Prep.Corruption = k
				}
			}
			return c
		},
		Check: func(c *Case, r *harness.Result) []Violation {
			if len(r.Panics) > 0 {
				p := r.Panics[0]
				return []Violation{viol("C16", "panic", panicShape(p.Value, p.Stack), "Prepare panicked: %s\n%s", p.Value, firstLines(p.Stack, 20))}
			}
			res := c.Prep.res
			if len(res) < 2 {
				return nil
			}
			var out []Violation
			desc := func(i int) string {
				v := c.Prep.Variants[i]
				return fmt.Sprintf("variant %d (map order %d/%d, permutation %d, renamed %v)", i, v.MapMode, v.MapSeed, v.Perm, v.Rename)
			}
			for i := 1; i < len(res); i++ {
				a, b := res[0], res[i]
				if (a.err == "") != (b.err == "") {
					out = append(out, viol("C16", "verdict-differs", "", "%s is %s but %s is %s (errors: %q / %q)", desc(0), verdict(a.err), desc(i), verdict(b.err), a.err, b.err))
					continue
				}
				if a.err != "" {
					continue
				}
				if d := firstDiff(a.dag, b.dag); d != "" {
					out = append(out, viol("C16", "graph-differs", "", "%s and %s give different dependency graphs: %s", desc(0), desc(i), d))
				}
				if a.outputs != b.outputs {
					out = append(out, viol("C16", "output-schema-differs", "", "%s and %s give different output schemas:\n%s\n%s", desc(0), desc(i), a.outputs, b.outputs))
				}
				if a.ns != b.ns {
					out = append(out, viol("C16", "namespaces-differ", "", "%s and %s give different namespaces", desc(0), desc(i)))
				}
			}
			return out
		},
	})

	// ---- C10: preparation builds exactly the dependency graph the workflow text implies ----
	register(&PropDef{ID: "C10",
		Gen: func(t *rapid.T) *Case {
			c := genPrepCase(t, "C10")
			c.Prep.Variants = genPrepVariants(t, 2, false, false)
			if rapid.IntRange(0, 2).Draw(t, "c10_corrupt") == 0 {
				if k, ok := corrupt(t, c.Program); ok {
					c.Prep.Corruption = k
					c.Profile += "-corrupted"
				}
			}
			return c
		},
		Check: func(c *Case, r *harness.Result) []Violation {
			if len(r.Panics) > 0 {
				p := r.Panics[0]
				return []Violation{viol("C10", "panic", panicShape(p.Value, p.Stack), "Prepare panicked: %s\n%s", p.Value, firstLines(p.Stack, 20))}
			}
			var out []Violation
			for i, res := range c.Prep.res {
				if c.Prep.Corruption != "" {
					if res.err == "" {
						out = append(out, viol("C10", "corrupted-workflow-accepted", c.Prep.Corruption, "a workflow with a %s corruption was accepted (variant %d):\n%s", c.Prep.Corruption, i, res.yaml))
					}
					continue
				}
				if res.err != "" {
					out = append(out, viol("C10", "prepare-rejected-generated-program", "", "a well-formed generated program was rejected: %s", res.err))
					continue
				}
				// every reference has its dependency, of the kind its tag requires, and nothing else
				want := expectedRefs(c.Program)
				life := map[string]bool{}
				for _, l := range res.life {
					life[l] = true
				}
				for consumer, got := range res.edgesFor {
					var refs []string
					parts := strings.Split(consumer, ".")
					for _, e := range got {
						src := strings.Split(e, "|")[0]
						sp := strings.Split(src, ".")
						// lifecycle edges: stage -> next stage of the same step, stage -> its own outputs
						if len(parts) >= 3 && len(sp) >= 3 && parts[0] == "steps" && sp[0] == "steps" && parts[1] == sp[1] {
							if len(parts) == 4 && len(sp) == 3 && parts[2] == sp[2] && strings.HasSuffix(e, "|required") {
								continue // output node depends on its stage
							}
							if len(parts) == 3 && len(sp) == 3 {
								kind := "plugin"
								if st := c.Program.Step(parts[1]); st != nil && st.Kind == "foreach" {
									kind = "foreach"
								}
								ty := strings.Split(e, "|")[1]
								dty := map[string]string{"required": "and", "completion": "completion-and"}[ty]
								if life[fmt.Sprintf("%s|%s|%s|%s", kind, sp[2], parts[2], dty)] {
									continue
								}
							}
						}
						refs = append(refs, e)
					}
					sort.Strings(refs)
					refs = dedup(refs) // two tags of one consumer may refer to the same source
					w := want[consumer]
					if strings.Join(refs, ";") != strings.Join(w, ";") {
						out = append(out, viol("C10", "dependencies-differ", "", "node %s depends on [%s] but the workflow text implies [%s] (variant %d)", consumer, strings.Join(refs, "; "), strings.Join(w, "; "), i))
					}
				}
				for consumer, w := range want {
					if _, ok := res.edgesFor[consumer]; !ok && len(w) > 0 {
						out = append(out, viol("C10", "dependencies-differ", "", "node %s has no dependencies but the workflow text implies [%s]", consumer, strings.Join(w, "; ")))
					}
				}
			}
			// rejected before anything runs: no run deployment, probes closed
			for _, e := range r.Events {
				if e.Kind == world.EvDeployBegin && !e.Probe {
					out = append(out, viol("C10", "deployed-during-prepare", "", "a run deployment of %s happened although nothing was executed", e.Src))
				}
			}
			for _, d := range r.Deployments {
				if d.Probe && d.OK && d.Closes == 0 {
					out = append(out, viol("C10", "probe-left-open", "", "schema probe deployment of %s was not closed", d.Src))
				}
			}
			sort.Slice(out, func(a, b int) bool { return out[a].Msg < out[b].Msg })
			return out
		},
	})
}

func verdict(err string) string {
	if err == "" {
		return "accepted"
	}
	return "rejected"
}

func firstDiff(a, b []string) string {
	am, bm := map[string]bool{}, map[string]bool{}
	for _, x := range a {
		am[x] = true
	}
	for _, x := range b {
		bm[x] = true
	}
	for _, x := range a {
		if !bm[x] {
			return "only in the first: " + x
		}
	}
	for _, x := range b {
		if !am[x] {
			return "only in the second: " + x
		}
	}
	return ""
}
