package check

import (
	"fmt"

	"go.flow.arcalot.io/engine/zverif/harness"
	"go.flow.arcalot.io/engine/zverif/ir"
	"go.flow.arcalot.io/engine/zverif/world"
	"pgregory.net/rapid"
)

// genInputCase draws a workflow whose steps and outputs read many input fields, and a valid or
// invalid input document.
func genInputCase(t *rapid.T) *Case {
	doc := ir.Doc{
		"n":    int64(rapid.IntRange(0, 9).Draw(t, "n")),
		"tag":  rapid.SampledFrom([]string{"t", "x1", "Ab", ""}).Draw(t, "tag"), // an empty string is a value like any other
		"flag": rapid.Bool().Draw(t, "flag"),
	}
	if rapid.Bool().Draw(t, "has_m") {
		doc["m"] = int64(rapid.IntRange(0, 5).Draw(t, "m"))
	}
	if rapid.Bool().Draw(t, "all_defaults_given") {
		// every top-level field that has a default is given explicitly: nothing is added at the top
		// level, normalisation only matters inside the values
		doc["m"] = int64(rapid.IntRange(0, 5).Draw(t, "m2"))
		doc["zero"] = int64(0)
	}
	if rapid.IntRange(0, 2).Draw(t, "has_opt") == 0 {
		doc["opt"] = rapid.SampledFrom([]string{"o", ""}).Draw(t, "opt")
	}
	hasPorts := rapid.IntRange(0, 2).Draw(t, "has_ports") == 0
	if hasPorts {
		// a map with integer keys (given in decimal notation, as every document format has them)
		doc["ports"] = map[string]any{"8080": rapid.SampledFrom([]string{"web", "w"}).Draw(t, "port_a"), "9": "discard"}
	}
	hasNested := rapid.Bool().Draw(t, "has_nested")
	if hasNested {
		n := map[string]any{"x": int64(rapid.IntRange(0, 9).Draw(t, "nx"))}
		if rapid.Bool().Draw(t, "has_ny") {
			n["y"] = rapid.SampledFrom([]string{"yy", ""}).Draw(t, "ny") // explicitly empty is not absent: no default
		}
		doc["nested"] = n
	}
	nItems := rapid.IntRange(0, 3).Draw(t, "nitems")
	if nItems > 0 {
		var items []any
		for i := 0; i < nItems; i++ {
			it := map[string]any{"v": int64(rapid.IntRange(0, 9).Draw(t, "iv"))}
			if rapid.Bool().Draw(t, "item_tag") {
				it["tag"] = fmt.Sprintf("i%d", i)
			}
			items = append(items, it)
		}
		doc["items"] = items
	}
	// string-encoded scalars are accepted by the schema and must be normalised
	if rapid.IntRange(0, 3).Draw(t, "encode_n") == 0 {
		doc["n"] = fmt.Sprint(doc["n"])
	}
	intRefs := []*ir.Expr{ir.Ref("input", "n"), ir.Ref("input", "m"), ir.Ref("input", "zero")}
	strRefs := []*ir.Expr{ir.Ref("input", "tag")}
	if _, ok := doc["opt"]; ok {
		strRefs = append(strRefs, ir.Ref("input", "opt"))
	}
	if hasPorts {
		strRefs = append(strRefs, ir.Ref("input", "ports", 8080), ir.Ref("input", "ports", 8080), ir.Ref("input", "ports", 9))
	}
	if hasNested {
		intRefs = append(intRefs, ir.Ref("input", "nested", "x"))
		strRefs = append(strRefs, ir.Ref("input", "nested", "y"))
	}
	if nItems > 0 {
		intRefs = append(intRefs, ir.Ref("input", "items", 0, "v"), ir.Ref("input", "items", nItems-1, "dur"))
		strRefs = append(strRefs, ir.Ref("input", "items", 0, "tag"), ir.Ref("input", "items", nItems-1, "mode"))
	}
	p := &ir.Program{Subs: map[string]*ir.Program{}}
	k := rapid.IntRange(1, 4).Draw(t, "nsteps")
	var outFields []ir.Field
	for i := 0; i < k; i++ {
		id := fmt.Sprintf("s%d", i)
		st := &ir.Step{ID: id, Kind: "plugin", In: []ir.Field{
			ir.F("a", rapid.SampledFrom(intRefs).Draw(t, "a_ref")),
			ir.F("s", rapid.SampledFrom(strRefs).Draw(t, "s_ref")),
			ir.F("dur", ir.Lit(rapid.SampledFrom([]int64{0, 1, 5}).Draw(t, "dur"))),
		}}
		if rapid.IntRange(0, 3).Draw(t, "enabled_by_flag") == 0 {
			st.Enabled = ir.Ref("input", "flag")
		}
		if i > 0 && rapid.Bool().Draw(t, "chain") {
			st.WaitFor = ir.StepRef(fmt.Sprintf("s%d", i-1), "outputs", "")
		}
		p.Steps = append(p.Steps, st)
		if st.Enabled == nil {
			outFields = append(outFields, ir.F(id, ir.StepRef(id, "outputs", "success")))
		} else {
			outFields = append(outFields, ir.F(id, ir.Opt("wait-optional", ir.StepRef(id, "outputs", "success", "s"))))
		}
	}
	outFields = append(outFields, ir.F("in_int", rapid.SampledFrom(intRefs).Draw(t, "out_int")), ir.F("in_str", rapid.SampledFrom(strRefs).Draw(t, "out_str")), ir.F("flag", ir.Ref("input", "flag")))
	if rapid.Bool().Draw(t, "whole_input") {
		outFields = append(outFields, ir.F("all", ir.Ref("input")))
	}
	if hasNested && rapid.IntRange(0, 2).Draw(t, "whole_nested") == 0 {
		// a property whose type refers to another object of the input scope, handed on whole
		outFields = append(outFields, ir.F("nested_obj", ir.Ref("input", "nested")))
	}
	if nItems > 0 && rapid.IntRange(0, 3).Draw(t, "whole_items") == 0 {
		outFields = append(outFields, ir.F("item_objs", ir.Ref("input", "items")), ir.F("item0", ir.Ref("input", "items", 0)))
	}
	p.Outputs = []ir.Output{{ID: "success", E: ir.Obj(outFields...)}}
	// corrupt the document half of the time
	corruption := "none"
	if rapid.Bool().Draw(t, "corrupt") {
		corruption = rapid.SampledFrom([]string{"missing-n", "missing-tag", "missing-flag", "n-not-a-number", "flag-not-bool", "unknown-key", "nested-without-x", "item-without-v", "items-not-a-list", "nested-unknown-key", "m-is-a-list", "tag-is-null", "m-is-null", "nested-y-is-null", "port-key-not-a-number", "port-value-not-a-string"}).Draw(t, "corruption")
		switch corruption {
		case "missing-n":
			delete(doc, "n")
		case "missing-tag":
			delete(doc, "tag")
		case "missing-flag":
			delete(doc, "flag")
		case "n-not-a-number":
			doc["n"] = "seven"
		case "flag-not-bool":
			doc["flag"] = "perhaps"
		case "unknown-key":
			doc["bogus"] = int64(1)
		case "nested-without-x":
			doc["nested"] = map[string]any{"y": "q"}
		case "item-without-v":
			doc["items"] = []any{map[string]any{"tag": "q"}}
		case "items-not-a-list":
			doc["items"] = "nope"
		case "nested-unknown-key":
			doc["nested"] = map[string]any{"x": int64(1), "z": int64(2)}
		case "m-is-a-list":
			doc["m"] = []any{int64(1)}
		case "port-key-not-a-number":
			doc["ports"] = map[string]any{"http": "web"}
		case "port-value-not-a-string":
			doc["ports"] = map[string]any{"8080": []any{"web"}}
		case "tag-is-null":
			doc["tag"] = nil
		case "m-is-null":
			doc["m"] = nil
		case "nested-y-is-null":
			doc["nested"] = map[string]any{"x": int64(1), "y": nil}
		}
	}
	c := &Case{Property: "C19", Profile: "input-" + corruption, Class: "S1", Program: p, Doc: doc}
	c.Policy = GenPolicy(t, rapid.Bool().Draw(t, "adv"))
	c.MapMode, c.MapSeed = GenMapOrder(t)
	return c
}

func init() {
	register(&PropDef{ID: "C19",
		Gen: genInputCase,
		Check: func(c *Case, r *harness.Result) []Violation {
			if r.PrepareErr != "" {
				return []Violation{viol("C19", "prepare-rejected-generated-program", "", "a well-typed generated program was rejected: %s", r.PrepareErr)}
			}
			if len(r.Panics) > 0 {
				// these programs do nothing but refer to the workflow input: a panic is about that
				p := r.Panics[0]
				return []Violation{viol("C19", "panic", panicShape(p.Value, p.Stack), "a workflow that only refers to its input panicked: %s\n%s", p.Value, firstLines(p.Stack, 20))}
			}
			_, derr := c.NormDoc()
			c0 := r.Clients[0]
			if derr != nil {
				// invalid document: refused with an error before any plugin is deployed for execution
				var out []Violation
				if r.Outcome != "completed" || !c0.Returned {
					return []Violation{viol("C19", "invalid-input-hang", c.Profile, "Execute did not return for an invalid input (%v)", derr)}
				}
				if c0.Err == "" {
					out = append(out, viol("C19", "invalid-input-accepted", c.Profile, "input %s violates the input schema (%v) but the run returned output %q", harness.JSON(map[string]any(c.Doc)), derr, c0.OutputID))
				}
				for _, e := range r.Events {
					if e.Kind == world.EvDeployBegin && !e.Probe {
						out = append(out, viol("C19", "deployed-for-invalid-input", c.Profile, "input violates the schema (%v) but %s was deployed for execution", derr, e.Src))
						break
					}
				}
				if len(c0.LeakedAtReturn) > 0 {
					out = append(out, viol("C19", "goroutines-for-invalid-input", c.Profile, "engine goroutines exist after the refusal: %v", c0.LeakedAtReturn))
				}
				return out
			}
			v, err := NewView(c, r)
			if err != nil {
				return []Violation{{Property: "C19", Rule: "harness", Msg: err.Error()}}
			}
			var out []Violation
			if c0.Returned && c0.ErrClass == "invalid-input" {
				out = append(out, viol("C19", "valid-input-refused", c.Profile, "input %s satisfies the input schema but was refused: %s", harness.JSON(map[string]any(c.Doc)), c0.Err))
				return out
			}
			out = append(out, OracleResult("C19", v)...)
			out = append(out, OracleInputs("C19", v)...)
			return out
		},
	})
}
