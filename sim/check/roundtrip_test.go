package check

import (
	"encoding/json"
	"os"
	"testing"

	"go.flow.arcalot.io/engine/zverif/harness"
	"pgregory.net/rapid"
)

// TestReplayRoundTrip: what a generator produces and what a fresh process reads back from the replay
// file must be the same case - same workflow text and files, same documents, same actions. (Twice a
// decoding detail made replays of genuine violations diverge: integers beyond 2^53, and path elements
// of decoded programs.) Run by `check selftest`.
func TestReplayRoundTrip(t *testing.T) {
	if os.Getenv("VERIF_ROUNDTRIP") == "" {
		t.Skip("VERIF_ROUNDTRIP not set")
	}
	LoadSites(os.Getenv("VERIF_SITES"))
	for id, def := range Props {
		id, def := id, def
		t.Run(id, func(t *testing.T) {
			rapid.Check(t, func(rt *rapid.T) {
				c := def.Gen(rt)
				b, err := json.Marshal(&ReplayFile{Property: id, Case: c})
				if err != nil {
					rt.Fatalf("encode: %v", err)
				}
				rf, err := decodeReplay(b)
				if err != nil {
					rt.Fatalf("decode: %v", err)
				}
				d := rf.Case
				same := func(what string, x, y any) {
					if harness.JSON(x) != harness.JSON(y) {
						rt.Fatalf("%s differs after the round trip:\n%s\n%s", what, harness.JSON(x), harness.JSON(y))
					}
				}
				if (c.Program == nil) != (d.Program == nil) {
					rt.Fatalf("program presence differs")
				}
				if c.Program != nil {
					if c.Program.YAML() != d.Program.YAML() {
						rt.Fatalf("workflow text differs after the round trip:\n%s\n---\n%s", c.Program.YAML(), d.Program.YAML())
					}
					same("files", c.Program.Files(), d.Program.Files())
				}
				if c.Program2 != nil {
					same("files of the second preparation", c.Program2.Files(), d.Program2.Files())
				}
				nd1, e1 := c.NormDoc()
				nd2, e2 := d.NormDoc()
				if (e1 == nil) != (e2 == nil) {
					rt.Fatalf("document validity differs: %v / %v", e1, e2)
				}
				same("normalised document", nd1, nd2)
				same("document", map[string]any(c.Doc), map[string]any(d.Doc))
				same("clients", c.Clients, d.Clients)
				same("plan", c.Plan, d.Plan)
				same("policy", c.Policy, d.Policy)
				if c.Prov != nil {
					same("provider actions", c.Prov.Actions, d.Prov.Actions)
				}
				if c.Prep != nil {
					same("preparation variants", c.Prep.Variants, d.Prep.Variants)
				}
				if c.Eng != nil {
					same("engine case", c.Eng, d.Eng)
				}
			})
		})
	}
}
