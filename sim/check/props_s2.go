package check

import (
	"fmt"
	"sort"
	"strings"

	"go.flow.arcalot.io/engine/zverif/harness"
	"go.flow.arcalot.io/engine/zverif/ir"
	"go.flow.arcalot.io/engine/zverif/ref"
	"go.flow.arcalot.io/engine/zverif/world"
	"pgregory.net/rapid"
)

// GenPlan draws connection-level and probe faults for the plugin sources of a program.
func GenPlan(t *rapid.T, p *ir.Program, pProbe, pRun int) world.Plan {
	plan := world.Plan{Probe: map[string]world.ProbeFault{}, Run: map[string]world.RunFault{}}
	var srcs []string
	var collect func(q *ir.Program)
	collect = func(q *ir.Program) {
		for _, s := range q.Steps {
			if s.Kind == "plugin" {
				srcs = append(srcs, q.Src(s.ID))
			}
		}
		names := make([]string, 0, len(q.Subs))
		for n := range q.Subs {
			names = append(names, n)
		}
		sort.Strings(names)
		for _, n := range names {
			collect(q.Subs[n])
		}
	}
	collect(p)
	for _, src := range srcs {
		if pProbe > 0 && rapid.IntRange(0, 99).Draw(t, "probe_fault") < pProbe {
			var f world.ProbeFault
			switch rapid.IntRange(0, 3).Draw(t, "probe_kind") {
			case 0:
				f.DeployFail = true
			case 1:
				f.KillAtByte = int64(rapid.IntRange(1, 3000).Draw(t, "probe_kill_at"))
			case 2:
				f.KillAfterMsgs = 1
			default:
				f.CloseErr = true
			}
			plan.Probe[src] = f
		}
		if pRun > 0 && rapid.IntRange(0, 99).Draw(t, "run_fault") < pRun {
			var f world.RunFault
			switch rapid.IntRange(0, 4).Draw(t, "run_kind") {
			case 0:
				f.KillAtByte = int64(rapid.IntRange(1, 4000).Draw(t, "run_kill_at"))
			case 1:
				f.KillAfterMsgs = rapid.IntRange(1, 2).Draw(t, "run_kill_msgs")
			case 2:
				f.SchemaDrop = true
			case 3:
				f.CloseErr = true
			default:
				f.KillAtByte = int64(rapid.IntRange(2000, 6000).Draw(t, "run_kill_late"))
			}
			plan.Run[src] = f
		}
	}
	return plan
}

// genS2 draws a case whose caller cancels at a scheduler-chosen decision.
func genS2(t *rapid.T, prop string, profs []*ir.Profile, pCancel, pProbe, pRun int) *Case {
	c := genS1(t, prop, profs, true)
	c.Class = "S2"
	c.Plan = GenPlan(t, c.Program, pProbe, pRun)
	cl := harness.ClientSpec{Name: "c0", Input: map[string]any(c.Doc)}
	if rapid.IntRange(0, 99).Draw(t, "cancel") < pCancel {
		if rapid.Bool().Draw(t, "cancel_by_time") {
			cl.CancelAfterUS = rapid.SampledFrom([]int64{1, 500, 3000, 8000, 30000, 200000, 2000000}).Draw(t, "cancel_after_us")
		} else {
			cl.CancelAtDecision = int64(rapid.IntRange(1, 700).Draw(t, "cancel_at_decision"))
		}
	}
	c.Clients = []harness.ClientSpec{cl}
	if len(c.Plan.Probe)+len(c.Plan.Run) > 0 || cl.CancelAfterUS+cl.CancelAtDecision > 0 {
		c.Class = "S2"
	}
	return c
}

func closureBoundUS(p *ir.Program) int64 {
	var sum int64
	var rec func(q *ir.Program)
	rec = func(q *ir.Program) {
		for _, s := range q.Steps {
			if s.Kind != "plugin" {
				continue
			}
			if s.Closure != nil {
				sum += *s.Closure * 1000
			} else {
				sum += 5000 * 1000
			}
		}
		for _, sub := range q.Subs {
			rec(sub)
		}
	}
	rec(p)
	return sum
}

// s2Check evaluates oracles that do not need the natural model (cancelled / faulted runs).
func s2Check(prop string, oracles ...func(string, *View) []Violation) func(c *Case, r *harness.Result) []Violation {
	return func(c *Case, r *harness.Result) []Violation {
		if len(r.Panics) > 0 {
			if prop == "C07" {
				return OracleNoPanic(prop, r)
			}
			return nil
		}
		v, err := NewView(c, r)
		if err != nil {
			return []Violation{{Property: prop, Rule: "harness", Msg: err.Error()}}
		}
		var out []Violation
		for _, o := range oracles {
			out = append(out, o(prop, v)...)
		}
		return out
	}
}

// OracleCancel is C06: bounded return after cancellation, every executing plugin reached, consistent result.
func OracleCancel(prop string, v *View) []Violation {
	c := v.C0
	if c == nil {
		return nil
	}
	var out []Violation
	if v.R.Outcome == "stuck" || v.R.Outcome == "exhausted" {
		if c.Cancelled {
			out = append(out, viol(prop, "no-return-after-cancel", "", "the caller cancelled at decision %d but Execute never returned: %s", c.CancelSeq, strings.Join(v.R.Stuck, " | ")))
		}
		return out
	}
	if !c.Returned || !c.Cancelled {
		return nil
	}
	// (1) bounded return in the fair suffix
	L := v.C.Policy.L
	if v.C.Policy.Kind == "fifo" || v.C.Policy.Kind == "" {
		L = 0
	}
	tAdv := int64(-1)
	for _, d := range v.R.Journal {
		if d.N >= L {
			tAdv = d.At
			break
		}
	}
	if tAdv >= 0 && c.EndSeq >= L {
		from := c.CancelUS
		if tAdv > from {
			from = tAdv
		}
		bound := int64(5_000_000) + closureBoundUS(v.C.Program) + 1_000_000
		if c.EndUS > from+bound {
			out = append(out, viol(prop, "late-return-after-cancel", "", "cancelled at t=%dus (fair from t=%dus) but Execute returned at t=%dus; bound is %dus", c.CancelUS, tAdv, c.EndUS, bound))
		}
	}
	// (2) every plugin executing at the moment of cancellation is signalled or shut down, and closed, before Execute returns
	type depState struct {
		src                         string
		start, end, sig, ctx, close int64
		signal, written             bool
	}
	deps := map[int]*depState{}
	for _, e := range v.Events {
		if e.Probe || e.Dep == 0 {
			continue
		}
		d := deps[e.Dep]
		if d == nil {
			d = &depState{src: e.Src, start: -1, end: -1, sig: -1, ctx: -1, close: -1}
			deps[e.Dep] = d
		}
		switch e.Kind {
		case world.EvExecStart:
			d.start = e.Seq
			d.signal, _ = e.Data["signal"].(bool)
		case world.EvExecEnd:
			d.end = e.Seq
		case world.EvCancelSignal:
			if d.sig < 0 {
				d.sig = e.Seq
			}
		case world.EvCtxDone, world.EvKill:
			if d.ctx < 0 {
				d.ctx = e.Seq
			}
		case world.EvConnClose:
			if d.close < 0 {
				d.close = e.Seq
				// the engine wrote the signal to the connection, whether or not the SDK's server delivered it
				d.written, _ = e.Data["signal_written"].(bool)
			}
		}
	}
	var ids []int
	for n := range deps {
		ids = append(ids, n)
	}
	sort.Ints(ids)
	for _, n := range ids {
		d := deps[n]
		if d.start < 0 || d.start > c.EndSeq {
			continue
		}
		// executing when the caller cancelled, or started executing while the run was being shut down
		executingAtCancel := d.end < 0 || d.end > c.CancelSeq
		if !executingAtCancel {
			continue
		}
		if d.close < 0 || d.close > c.EndSeq {
			out = append(out, viol(prop, "plugin-left-running", "", "plugin %s (deployment %d) was executing when the caller cancelled and its deployment was not closed when Execute returned", d.src, n))
			continue
		}
		reached := (d.end >= 0 && d.end <= c.EndSeq) || (d.sig >= 0 && d.sig <= c.EndSeq) || (d.ctx >= 0 && d.ctx <= c.EndSeq)
		if !reached {
			out = append(out, viol(prop, "plugin-not-reached", "", "plugin %s (deployment %d) was executing when the caller cancelled but saw neither a cancel signal nor a shutdown before Execute returned", d.src, n))
		} else if d.signal && !d.written && !(d.sig >= 0 && d.sig <= c.EndSeq) && !(d.end >= 0 && d.end <= c.EndSeq) && d.start < d.close && (d.ctx < 0 || d.start < d.ctx) {
			// (a handler that only started after its connection had been closed was never really executing)
			// it has a cancel signal handler, did not finish by itself, and was shut down without being asked to stop
			out = append(out, viol(prop, "plugin-closed-without-cancel-signal", "", "plugin %s (deployment %d) supports the cancel signal and was executing during the shutdown, but it was closed (decision %d) without ever being sent the signal", d.src, n, d.ctx))
		}
	}
	// every plugin deployed for the run (executing or not) is shut down when the cancelled run returns
	if len(c.OpenAtReturn) > 0 {
		out = append(out, viol(prop, "plugin-left-running", "deployed, not executing", "the cancelled run returned while deployments %v were still open (plugins left running)", c.OpenAtReturn))
	}
	// (3) the result: an error, or an output whose dependencies were genuinely produced
	out = append(out, OracleObservedResult(prop, v)...)
	return out
}

// OracleObservedResult: a returned output is declared, everything it refers to was produced in this
// run before Execute returned, and its data equals the evaluation over the observed values.
func OracleObservedResult(prop string, v *View) []Violation {
	c := v.C0
	if c == nil || !c.Returned || c.Err != "" {
		return nil
	}
	var decl *ir.Output
	for i := range v.C.Program.Outputs {
		if v.C.Program.Outputs[i].ID == c.OutputID {
			decl = &v.C.Program.Outputs[i]
		}
	}
	if decl == nil {
		return []Violation{viol(prop, "undeclared-output", "", "returned output %q is not declared", c.OutputID)}
	}
	// A run that was told to stop closes its steps while they may still hold results nobody has read:
	// whatever the plugins emitted may or may not have reached the data an output built during the
	// teardown is made from (optional fields may be absent; what is present must be genuine).
	sd := v.Shutdown
	if c.Cancelled && sd > 0 {
		sd = 1
	}
	obs := Observe(v.C.Program, v.Facts.Input, v.Events, c.EndSeq, sd)
	if bad, ok := producedBefore(obs, decl.E, c.EndSeq+1); !ok {
		return []Violation{viol(prop, "output-without-dependency", refKind(bad), "output %q was returned although %s had not been produced in this run", c.OutputID, bad)}
	}
	r := obs.Eval(decl.E)
	if r.St == ref.OK {
		if err := ref.Match(r.V, c.OutputData); err != nil {
			return []Violation{viol(prop, "output-data", "", "output %q data %s differs from the evaluation over the observed step outputs %s: %v", c.OutputID, harness.JSON(c.OutputData), modelJSON(r.V), err)}
		}
	}
	return nil
}

func init() {
	// ---- C06: cancelling a run stops it in bounded time and reaches every running plugin ----
	c06 := []*ir.Profile{
		{Name: "c06-running", MinSteps: 1, MaxSteps: 4, Durs: []int64{20, 200, 2000, 10000}, PWaitFor: 30, PDeploySlow: 40, PNoSignal: 30, Closure: []int64{0, 10, 5000}, MaxOutputs: 2},
		{Name: "c06-mixed", MinSteps: 1, MaxSteps: 5, Durs: []int64{0, 5, 100, 3000}, Modes: []string{"err", "crash", "hang"}, PBad: 35, PDeployFail: 10, PDeploySlow: 40, PDisabled: 15, PWaitFor: 30, PNoSignal: 30, Closure: []int64{0, 10, 5000}, MaxOutputs: 2, ErrOutput: true},
		{Name: "c06-loops", ItemsFromStep: 30, MinSteps: 1, MaxSteps: 3, Durs: []int64{20, 200, 2000}, Foreach: 60, PWaitFor: 20, Closure: []int64{0, 10, 5000}},
		{Name: "c06-ignore", MinSteps: 1, MaxSteps: 3, Durs: []int64{1000, 10000}, PNoSignal: 20, Closure: []int64{0, 10, 200}, IgnoreCancel: 60},
	}
	register(&PropDef{ID: "C06",
		Gen: func(t *rapid.T) *Case {
			c := genS2(t, "C06", c06, 100, 0, 0)
			if rapid.IntRange(0, 5).Draw(t, "silent_plugin") == 0 {
				// one deployed plugin never says a word: the step is stuck reading from it when the caller
				// cancels, and only closing the connection gets it out
				var srcs []string
				for _, s := range c.Program.Steps {
					if s.Kind == "plugin" {
						srcs = append(srcs, c.Program.Src(s.ID))
					}
				}
				if len(srcs) > 0 {
					c.Plan.Run[srcs[rapid.IntRange(0, len(srcs)-1).Draw(t, "silent_src")]] = world.RunFault{Silent: true}
				}
			}
			return c
		},
		Check: s2Check("C06", OracleCancel),
	})

	// ---- C05: nothing is left running or deployed after a run or a parse returns ----
	c05 := []*ir.Profile{
		{Name: "c05-mixed", MinSteps: 1, MaxSteps: 5, Durs: []int64{0, 5, 100, 3000}, Modes: []string{"err", "crash", "panic", "hang", "alt"}, PBad: 40, PDeployFail: 15, PDeploySlow: 40, PDisabled: 20, PWaitFor: 30, PNoSignal: 30, Closure: []int64{0, 10, 5000}, MaxOutputs: 3, ErrOutput: true},
		{Name: "c05-loops", ItemsFromStep: 30, MinSteps: 1, MaxSteps: 3, Durs: []int64{0, 5, 100}, Foreach: 60, Modes: []string{"err", "crash"}, PBad: 30, MaxOutputs: 2, ErrOutput: true},
		{Name: "c05-stop", MinSteps: 1, MaxSteps: 3, Durs: []int64{0, 5, 50}, StopIf: true, PDeploySlow: 30},
	}
	register(&PropDef{ID: "C05",
		Gen: func(t *rapid.T) *Case {
			return genS2(t, "C05", c05, 50, rapid.SampledFrom([]int{0, 0, 25}).Draw(t, "p_probe"), rapid.SampledFrom([]int{0, 20, 50}).Draw(t, "p_run"))
		},
		Check: func(c *Case, r *harness.Result) []Violation {
			if len(r.Panics) > 0 {
				return nil
			}
			v, err := NewView(c, r)
			if err != nil {
				return []Violation{{Property: "C05", Rule: "harness", Msg: err.Error()}}
			}
			return OracleLeaks("C05", v)
		},
	})
}

var _ = fmt.Sprintf
