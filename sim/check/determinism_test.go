package check

import (
	"fmt"
	"os"
	"strconv"
	"testing"

	"go.flow.arcalot.io/engine/zverif/harness"
	"go.flow.arcalot.io/engine/zverif/simrt"
)

func smokeSpec(seed int64) harness.Spec {
	kind := []string{"fifo", "random", "pct", "starve", "bounded"}[seed%5]
	return harness.Spec{
		Text:    twoStep,
		Policy:  simrt.PolicySpec{Kind: kind, Seed: seed, L: 300, PTime: 100, PSelect: 200, PEnv: 50, Depth: 2, Victim: "provider.go", WindowUS: 40000, Preemptions: 3},
		MapMode: int(seed % 3), MapSeed: uint64(seed),
		Clients: []harness.ClientSpec{{Name: "c0", Input: map[string]any{"n": 3}, CancelAtDecision: []int64{0, 0, 90, 140}[seed%4]}},
		Journal: true,
	}
}

// TestDeterminismPrint prints one line per seed with the hash of the full event log; the driver runs
// it in several processes at several GOMAXPROCS values and diffs the output.
func TestDeterminismPrint(t *testing.T) {
	n, _ := strconv.Atoi(os.Getenv("DET_SEEDS"))
	if n == 0 {
		n = 20
	}
	reps, _ := strconv.Atoi(os.Getenv("DET_REPS"))
	if reps == 0 {
		reps = 3
	}
	for seed := int64(0); seed < int64(n); seed++ {
		hashes := map[string]int{}
		var last *harness.Result
		for rep := 0; rep < reps; rep++ {
			last = harness.Run(t, smokeSpec(seed))
			hashes[hashResult(last)]++
		}
		if len(hashes) != 1 {
			t.Errorf("seed %d: %d distinct traces in %d repetitions: %v", seed, len(hashes), reps, hashes)
		}
		for h := range hashes {
			fmt.Printf("DET seed=%d hash=%s outcome=%s id=%s errclass=%s decisions=%d\n", seed, h, last.Outcome, last.Clients[0].OutputID, last.Clients[0].ErrClass, last.Stats.Decisions)
		}
	}
}
