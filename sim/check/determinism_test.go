package check

import (
	"encoding/json"
	"flag"
	"fmt"
	"os"
	"sort"
	"strconv"
	"strings"
	"testing"

	"go.flow.arcalot.io/engine/zverif/harness"
	"go.flow.arcalot.io/engine/zverif/simrt"
	"pgregory.net/rapid"
)

func smokeSpec(seed int64) harness.Spec {
	kind := []string{"fifo", "random", "pct", "starve", "bounded"}[seed%5]
	return harness.Spec{
		Text:    twoStep,
		Policy:  simrt.PolicySpec{Kind: kind, Seed: seed, L: 300, PTime: 100, PSelect: 200, PEnv: 50, Depth: 2, Victim: "provider.go", WindowUS: 40000, Preemptions: 3},
		MapMode: int(seed % 3), MapSeed: uint64(seed),
		Clients: []harness.ClientSpec{{Name: "c0", Input: map[string]any{"n": 3}, CancelAtDecision: []int64{0, 0, 90, 140}[seed%4]}},
		Journal: true,
	}
}

// TestDeterminismPrint prints one line per seed with the hash of the full event log; the driver runs
// it in several processes at several GOMAXPROCS values and diffs the output.
func TestDeterminismPrint(t *testing.T) {
	n, _ := strconv.Atoi(os.Getenv("DET_SEEDS"))
	if n == 0 {
		n = 20
	}
	reps, _ := strconv.Atoi(os.Getenv("DET_REPS"))
	if reps == 0 {
		reps = 3
	}
	for seed := int64(0); seed < int64(n); seed++ {
		hashes := map[string]int{}
		var last *harness.Result
		for rep := 0; rep < reps; rep++ {
			last = harness.Run(t, smokeSpec(seed))
			hashes[hashResult(last)]++
		}
		if len(hashes) != 1 {
			t.Errorf("seed %d: %d distinct traces in %d repetitions: %v", seed, len(hashes), reps, hashes)
		}
		for h := range hashes {
			fmt.Printf("DET seed=%d hash=%s outcome=%s id=%s errclass=%s decisions=%d\n", seed, h, last.Outcome, last.Clients[0].OutputID, last.Clients[0].ErrClass, last.Stats.Decisions)
		}
	}
}

// TestDeterminismCases prints one line per generated case - DET_CASES cases of every property from a fixed
// generator seed - with the hash of the full result (events, journal, client results, panics) and, for
// body-driven cases, of what the oracle returns. Each case runs twice in this process; the driver runs
// the test in several processes at several GOMAXPROCS values and compares the output. This is the
// self-test over the whole workload space (loops, provider histories, preparations, the engine API,
// every policy), where TestDeterminismPrint covers one program.
func TestDeterminismCases(t *testing.T) {
	n, _ := strconv.Atoi(os.Getenv("DET_CASES"))
	if n == 0 {
		t.Skip("DET_CASES not set")
	}
	LoadSites(os.Getenv("VERIF_SITES"))
	_ = flag.Set("rapid.nofailfile", "true")
	_ = flag.Set("rapid.checks", strconv.Itoa(n))
	var ids []string
	for id := range Props {
		ids = append(ids, id)
	}
	sort.Strings(ids)
	for k, id := range ids {
		def := Props[id]
		_ = flag.Set("rapid.seed", strconv.Itoa(1000+k))
		i := 0
		tb := &fakeTB{}
		rapid.Check(tb, func(rt *rapid.T) {
			c := def.Gen(rt)
			i++
			h := map[string]int{}
			var vs []Violation
			for rep := 0; rep < 2; rep++ {
				r := RunCase(t, c, true)
				vs = def.Check(c, r)
				var rules []string
				for _, v := range vs {
					rules = append(rules, v.Rule+"/"+v.Shape)
				}
				sort.Strings(rules)
				h[hashResult(r)+" "+strings.Join(rules, ",")]++
			}
			for key, cnt := range h {
				fmt.Printf("DETC prop=%s i=%d reps=%d %s\n", id, i, cnt, key)
			}
			if len(h) > 1 && os.Getenv("DET_DEBUG") != "" {
				for rep := 0; rep < 2; rep++ {
					r := RunCase(t, c, true)
					b, _ := json.Marshal(struct {
						C any
						E any
					}{r.Clients, r.Events})
					_ = os.WriteFile(fmt.Sprintf("/tmp/detdebug.%s.%d.%d.json", id, i, rep), b, 0o644)
				}
			}
		})
	}
}
