package check

import (
	"fmt"
	"os"
	"sort"
	"testing"

	"go.flow.arcalot.io/engine/workflow"
	"go.flow.arcalot.io/engine/zverif/harness"
	"go.flow.arcalot.io/engine/zverif/ir"
	"go.flow.arcalot.io/engine/zverif/simrt"
)

func TestDagDump(t *testing.T) {
	if os.Getenv("DAGDUMP") == "" {
		t.Skip()
	}
	p := &ir.Program{Subs: map[string]*ir.Program{}}
	a := &ir.Step{ID: "a", Kind: "plugin", In: []ir.Field{ir.F("a", ir.Ref("input", "n"))}, Enabled: ir.Ref("input", "flag")}
	b := &ir.Step{ID: "b", Kind: "plugin", In: []ir.Field{ir.F("a", ir.StepRef("a", "outputs", "success", "a")), ir.F("o", ir.Opt("wait-optional", ir.StepRef("a", "outputs", "success", "s")))},
		WaitFor: ir.OneOf("x", ir.F("first", ir.StepRef("a", "outputs", "success")), ir.F("second", ir.StepRef("a", "disabled", "output"))), StopIf: ir.StepRef("a", "outputs", "")}
	p.Steps = []*ir.Step{a, b}
	p.Outputs = []ir.Output{{ID: "success", E: ir.Obj(ir.F("r", ir.StepRef("b", "outputs", "success")), ir.F("so", ir.Opt("soft-optional", ir.StepRef("a", "outputs", "success", "s"))), ir.F("od", ir.Opt("ordisabled", ir.StepRef("a", "outputs", "success"))))}}
	fmt.Println(p.YAML())
	sp := harness.Spec{Text: p.YAML(), Policy: simrt.PolicySpec{Kind: "fifo"}, PrepareOnly: true, AfterPrepare: func(wf workflow.ExecutableWorkflow) {
		nodes := wf.DAG().ListNodes()
		var ids []string
		for id := range nodes {
			ids = append(ids, id)
		}
		sort.Strings(ids)
		for _, id := range ids {
			n := nodes[id]
			deps := n.OutstandingDependencies()
			var ds []string
			for d, ty := range deps {
				ds = append(ds, fmt.Sprintf("%s(%s)", d, ty))
			}
			sort.Strings(ds)
			if a := id; len(a) > 8 && (a[:8] == "steps.b." || a[:8] == "outputs.") || id == "steps.a.deploy" {
				fmt.Printf("NODE %-40s kind=%-16s deps=%v\n", id, n.Item().Kind, ds)
			}
		}
	}}
	r := harness.Run(t, sp)
	fmt.Println("prepare err:", r.PrepareErr)
}
