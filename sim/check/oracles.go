package check

import (
	"fmt"
	"regexp"
	"sort"
	"strings"

	"go.flow.arcalot.io/engine/zverif/harness"
	"go.flow.arcalot.io/engine/zverif/ir"
	"go.flow.arcalot.io/engine/zverif/ref"
	"go.flow.arcalot.io/engine/zverif/simrt"
	"go.flow.arcalot.io/engine/zverif/world"
)

// View is the per-run analysis shared by the S1 oracles.
type View struct {
	C     *Case
	R     *harness.Result
	Facts *ref.Facts
	C0    *harness.ClientResult
	// events of the main client's run, by plugin source
	Starts map[string][]world.Event
	Ends   map[string][]world.Event
	// Events are the events of this client's run (plus events that belong to no deployment).
	Events []world.Event
	// Shutdown is the decision at which the caller's goroutine started closing the run's steps (0: never).
	Shutdown int64
}

// NewView builds the analysis for the first client of a case.
func NewView(c *Case, r *harness.Result) (*View, error) {
	return NewViewFor(c, r, 0)
}

// NewViewFor builds the analysis of the run of client i: the model is evaluated for that client's
// input and only the events of deployments made by that client's run are considered.
func NewViewFor(c *Case, r *harness.Result, i int) (*View, error) {
	if i < len(c.Clients) && c.Clients[i].Workflow == 1 && c.Program2 != nil {
		// this client ran the second preparation, which was given other sub-workflow files: its reference is
		// the program with those files
		cc := *c
		cc.Program = c.Program2
		c = &cc
	}
	v := &View{C: c, R: r, Starts: map[string][]world.Event{}, Ends: map[string][]world.Event{}}
	docAny := map[string]any(c.Doc)
	name := "c0"
	if i < len(c.Clients) {
		name = c.Clients[i].Name
		if m, ok := c.Clients[i].Input.(map[string]any); ok {
			docAny = m
		}
	}
	doc, err := ref.NormalizeInput(false, jsonNorm(docAny).(map[string]any))
	if err != nil {
		return nil, fmt.Errorf("case document is not valid for the model: %w", err)
	}
	v.Facts = ref.Natural(c.Program, doc)
	if i < len(r.Clients) {
		v.C0 = r.Clients[i]
	}
	v.Shutdown = ShutdownSeq(r, name)
	mine := map[int]bool{}
	prefix := "env/client/" + name + "/"
	for _, e := range r.Events {
		if e.Kind == world.EvDeployBegin && !e.Probe {
			if by, _ := e.Data["by"].(string); strings.HasPrefix(by, prefix) {
				mine[e.Dep] = true
			}
		}
	}
	for _, e := range r.Events {
		if e.Dep != 0 && !e.Probe && !mine[e.Dep] {
			continue
		}
		v.Events = append(v.Events, e)
		switch e.Kind {
		case world.EvExecStart:
			v.Starts[e.Src] = append(v.Starts[e.Src], e)
		case world.EvExecEnd:
			v.Ends[e.Src] = append(v.Ends[e.Src], e)
		}
	}
	return v, nil
}

func viol(prop, rule, shape, f string, a ...any) Violation {
	return Violation{Property: prop, Rule: rule, Shape: shape, Msg: fmt.Sprintf(f, a...)}
}

// harnessTrouble reports runs the oracles must not judge (simulator problems are exit-2 material).
func harnessTrouble(r *harness.Result) string {
	if len(r.Harness) > 0 {
		return strings.Join(r.Harness, "; ")
	}
	if r.Outcome == "harness-failure" {
		return "harness failure"
	}
	return ""
}

// OracleNoPanic is C07's rule: no engine or caller goroutine panics.
func OracleNoPanic(prop string, r *harness.Result) []Violation {
	var out []Violation
	for _, p := range r.Panics {
		out = append(out, viol(prop, "no-panic", panicShape(p.Value, p.Stack), "goroutine %s panicked: %s\n%s", p.G, p.Value, firstLines(p.Stack, 30)))
		break
	}
	return out
}

// panicShape identifies a panic by its innermost engine frame and a normalised form of its message
// (node names, numbers and operators removed), not by the full text.
func panicShape(value, stack string) string {
	fn := ""
	for _, l := range strings.Split(stack, "\n") {
		if strings.Contains(l, "go.flow.arcalot.io/engine/") && !strings.Contains(l, "/zverif/") && !strings.HasPrefix(strings.TrimSpace(l), "/") {
			fn = strings.TrimSpace(l)
			if k := strings.LastIndex(fn, "("); k > 0 {
				fn = fn[:k]
			}
			fn = strings.TrimPrefix(fn, "go.flow.arcalot.io/engine/")
			break
		}
	}
	return "panic in " + fn + ": " + msgClass(value)
}

var typeWords = map[string]bool{"uint64": true, "int64": true, "string": true, "float64": true, "bool": true, "int": true}

// msgClass reduces an error message to its innermost reason with the variable parts removed.
func msgClass(msg string) string {
	segs := strings.Split(msg, " (")
	reason := strings.TrimRight(segs[len(segs)-1], ")")
	for i := len(segs) - 1; i > 0 && len(strings.Trim(reason, "0123456789) ")) == 0; i-- {
		reason = strings.TrimRight(segs[i-1], ")")
	}
	var b strings.Builder
	inQuote := false
	var q strings.Builder
	for _, c := range reason {
		switch {
		case c == '\'' || c == '"':
			if inQuote {
				if typeWords[q.String()] {
					b.WriteString("'" + q.String() + "'")
				} else {
					b.WriteString("'?'")
				}
				q.Reset()
			}
			inQuote = !inQuote
		case inQuote:
			q.WriteRune(c)
		case c >= '0' && c <= '9':
			if s := b.String(); !strings.HasSuffix(s, "N") {
				b.WriteRune('N')
			}
		default:
			b.WriteRune(c)
		}
	}
	out := b.String()
	if len(out) > 120 {
		out = out[:120]
	}
	return out
}

func firstLines(s string, n int) string {
	l := strings.Split(s, "\n")
	if len(l) > n {
		l = l[:n]
	}
	return strings.Join(l, "\n")
}

// OracleTerminates is C01's shape and no-hang rule.
func OracleTerminates(prop string, v *View) []Violation {
	r := v.R
	var out []Violation
	if r.Outcome == "stuck" || r.Outcome == "exhausted" {
		if len(v.Facts.Producible) == 0 && len(v.Facts.Pending) > 0 {
			// every output still possible needs something that only a never-ending step (or the tear-down
			// of the run itself) would produce: there is nothing the run could have returned
			return nil
		}
		sh, parts := hangShape(v)
		if parts == nil {
			parts = waitsOnStepsThatNeverStart(v)
		}
		vv := viol(prop, "no-hang", sh, "run did not return: outcome=%s; producible=%v pending=%v; goroutines: %s", r.Outcome, v.Facts.ProducibleIDs(), keys(v.Facts.Pending), strings.Join(r.Stuck, " | "))
		vv.Parts = parts
		vv.Msg += "; outputs wait for: " + strings.Join(parts, ", ")
		return append(out, vv)
	}
	c := v.C0
	if c == nil || !c.Returned {
		return out
	}
	if (c.OutputID == "") == (c.Err == "") {
		out = append(out, viol(prop, "result-shape", "", "Execute returned id=%q data=%v err=%q", c.OutputID, c.OutputData, c.Err))
	}
	if c.Err != "" && c.OutputData != nil {
		out = append(out, viol(prop, "result-shape", "", "error together with output data %v", c.OutputData))
	}
	if c.Err == "" {
		declared := false
		for _, o := range v.C.Program.Outputs {
			if o.ID == c.OutputID {
				declared = true
			}
		}
		if !declared {
			out = append(out, viol(prop, "result-shape", "", "undeclared output id %q", c.OutputID))
		}
	}
	return out
}

func hangShape(v *View) (string, []string) {
	// what the outputs were waiting for, by kind: "<stage.output> of a step that <natural outcome>"
	if len(v.Facts.Producible) > 0 {
		return "an output is producible", nil
	}
	hang := false
	for _, sf := range v.Facts.Steps {
		if sf.Hangs {
			hang = true
		}
	}
	kinds := map[string]bool{}
	for _, o := range v.C.Program.Outputs {
		ir.Walk(o.E, func(x *ir.Expr) {
			if x.K != "ref" || len(x.Path) < 3 || x.Path[0] != "steps" {
				return
			}
			if r := v.Facts.Eval(x); r.St == ref.OK {
				return
			}
			id := x.Path[1].(string)
			kind := x.Path[2].(string)
			if len(x.Path) > 3 {
				kind += "." + x.Path[3].(string)
			}
			kinds[kind+" of a step that "+naturalOutcome(v.Facts.Steps[id])] = true
		})
	}
	s := "no output producible"
	if hang {
		s += " while an unrelated step never finishes"
	}
	return s, keys(kinds)
}

func naturalOutcome(sf *ref.StepFacts) string {
	if sf == nil {
		return "does not exist"
	}
	switch {
	case sf.Hangs:
		return "never finishes"
	case sf.Out["outputs.success"] != nil:
		return "succeeds"
	case sf.Out["outputs.error"] != nil, sf.Out["outputs.alt"] != nil, sf.Out["outputs.cancelled"] != nil:
		return "ends in another output"
	case sf.Out["crashed.error"] != nil:
		return "crashes"
	case sf.Out["deploy_failed.error"] != nil:
		return "fails to deploy"
	case sf.Out["disabled.output"] != nil:
		return "is disabled"
	case sf.Out["failed.error"] != nil:
		return "fails (loop)"
	}
	return "never starts"
}

func keys[V any](m map[string]V) []string {
	out := make([]string, 0, len(m))
	for k := range m {
		out = append(out, k)
	}
	sort.Strings(out)
	return out
}

// OracleResult is the rule of C03 (and C09): the returned result is the one the model prescribes.
func OracleResult(prop string, v *View) []Violation {
	c := v.C0
	if c == nil || !c.Returned {
		return nil
	}
	f := v.Facts
	// A fallback detector that gave up while a step goroutine was merely held up is C09's finding; the
	// other properties leave such runs to it. Giving up with nothing held up means the run really lost
	// its way, and that is everybody's business.
	shape, heldUp, claims := stalledShapeParts(v)
	attribute := func(vs []Violation) []Violation {
		if heldUp && prop != "C09" {
			return nil
		}
		for i := range vs {
			vs[i].Shape += shape
			vs[i].Parts = append(vs[i].Parts, claims...)
		}
		return vs
	}
	if c.Err == "" {
		want, ok := f.Producible[c.OutputID]
		if !ok {
			return attribute([]Violation{viol(prop, "output-not-producible", "", "returned output %q but the producible set is %v (steps: %s)", c.OutputID, f.ProducibleIDs(), factsSummary(f))})
		}
		if err := ref.Match(want, c.OutputData); err != nil {
			return attribute([]Violation{viol(prop, "output-data", "", "output %q data %s does not match the reference %s: %v", c.OutputID, harness.JSON(c.OutputData), modelJSON(want), err)})
		}
		return nil
	}
	if len(f.Producible) > 0 && len(f.RunError) == 0 {
		vv := viol(prop, "spurious-error", c.ErrClass, "run failed with %q (class %s) although outputs %v are producible (steps: %s)", c.Err, c.ErrClass, f.ProducibleIDs(), factsSummary(f))
		vv.Parts = waitsOnStepsThatNeverStart(v)
		if len(vv.Parts) > 0 {
			vv.Msg += "; " + strings.Join(vv.Parts, ", ")
		}
		return attribute([]Violation{vv})
	}
	return nil
}

// waitsOnStepsThatNeverStart lists the wait-optional references of the outputs to an error-path stage
// (failed / crashed / deploy_failed) of a step that, by the model, never starts: what it needs is
// never produced, and nobody tells the engine that the stage cannot occur (known finding KF-C15-1).
func waitsOnStepsThatNeverStart(v *View) []string {
	seen := map[string]bool{}
	for _, o := range v.C.Program.Outputs {
		ir.Walk(o.E, func(x *ir.Expr) {
			if x.K != "opt" || x.Tag != "wait-optional" || len(x.Args) == 0 {
				return
			}
			ir.Walk(x.Args[0], func(y *ir.Expr) {
				if y.K != "ref" || len(y.Path) < 4 || y.Path[0] != "steps" {
					return
				}
				stage := fmt.Sprint(y.Path[2])
				if stage != "failed" && stage != "crashed" && stage != "deploy_failed" {
					return
				}
				sf := v.Facts.Steps[fmt.Sprint(y.Path[1])]
				if sf != nil && naturalOutcome(sf) == "never starts" {
					seen["wait-optional on "+stage+"."+fmt.Sprint(y.Path[3])+" of a step that never starts"] = true
				}
			})
		})
	}
	return keys(seen)
}

func factsSummary(f *ref.Facts) string {
	var parts []string
	for _, s := range f.P.Steps {
		sf := f.Steps[s.ID]
		parts = append(parts, fmt.Sprintf("%s{started=%v out=%v why=%q}", s.ID, sf.Started, keys(sf.Out), sf.Why))
	}
	return strings.Join(parts, " ")
}

func modelJSON(v any) string {
	return harness.JSON(modelPlain(v))
}

func modelPlain(v any) any {
	switch x := v.(type) {
	case ref.Wild:
		return "<any>"
	case ref.Absent:
		return "<absent>"
	case ref.Choice:
		var out []any
		for _, a := range x.Alts {
			out = append(out, modelPlain(a))
		}
		return map[string]any{"<one-of>": out}
	case map[string]any:
		out := map[string]any{}
		for k, y := range x {
			out[k] = modelPlain(y)
		}
		return out
	case []any:
		out := make([]any, len(x))
		for i := range x {
			out[i] = modelPlain(x[i])
		}
		return out
	}
	return v
}

// stepOfSrc maps a plugin source back to (program, step id).
func stepOfSrc(p *ir.Program, src string) (*ir.Program, string) {
	s := strings.TrimPrefix(src, "sim://")
	if i := strings.LastIndex(s, "/"); i >= 0 {
		name := s[:i]
		var find func(q *ir.Program) *ir.Program
		find = func(q *ir.Program) *ir.Program {
			for n, sub := range q.Subs {
				if n == name {
					return sub
				}
				if r := find(sub); r != nil {
					return r
				}
			}
			return nil
		}
		return find(p), s[i+1:]
	}
	return p, s
}

// OracleMayRun is C04's rule, stated over the observed world: plugin code of a step runs only if
// everything its input and wait_for refer to had really been produced before (by decision number) and
// its enabled condition evaluates to true over the produced values.
func OracleMayRun(prop string, v *View) []Violation {
	var out []Violation
	doc := v.Facts.Input
	obs := Observe(v.C.Program, doc, v.Events, 0)
	for src, evs := range v.Starts {
		prog, id := stepOfSrc(v.C.Program, src)
		if prog != v.C.Program {
			continue // loop bodies are judged per item by C13
		}
		st := prog.Step(id)
		if st == nil {
			continue
		}
		ev := evs[0]
		if len(evs) > 1 {
			out = append(out, viol(prop, "ran-twice", "", "step %s executed %d times in one run", id, len(evs)))
		}
		for what, e := range map[string]*ir.Expr{"input": ir.Obj(st.In...), "wait_for": st.WaitFor} {
			if e == nil {
				continue
			}
			if bad, ok := producedBefore(obs, e, ev.Seq); !ok {
				out = append(out, viol(prop, "ran-without-prerequisite", what+" refers to "+refKind(bad), "step %s executed plugin code at decision %d (input %s) although %s of its %s had not been produced before", id, ev.Seq, harness.JSON(ev.Data["input"]), bad, what))
			}
		}
		if st.Enabled != nil {
			r := obs.Eval(st.Enabled)
			if b, err := ref.ToBool(r.V); r.St == ref.OK && err == nil && !b {
				out = append(out, viol(prop, "ran-although-disabled", "", "step %s executed plugin code although its enabled condition %s is false", id, ir.ExprText(st.Enabled)))
			}
			if bad, ok := producedBefore(obs, st.Enabled, ev.Seq); !ok {
				out = append(out, viol(prop, "ran-without-prerequisite", "enabled refers to "+refKind(bad), "step %s executed although %s of its enabled condition had not been produced before", id, bad))
			}
		}
		// a condition or value that cannot be evaluated (division by zero, ...) never "evaluated to true"
		for what, e := range map[string]*ir.Expr{"input": ir.Obj(st.In...), "wait_for": st.WaitFor, "enabled": st.Enabled} {
			if e == nil {
				continue
			}
			if r := obs.Eval(e); r.St == ref.EvalErr {
				out = append(out, viol(prop, "ran-although-not-evaluable", what, "step %s executed plugin code although its %s (%s) cannot be evaluated: %s", id, what, ir.ExprText(e), r.Why))
			}
		}
	}
	out = append(out, stoppedBeforeStart(prop, v, obs)...)
	// the natural model agrees when the run was not cut short: a step that may not run never ran
	// before the first step failure / termination (kept as a cross-check of the observed rule)
	sort.Slice(out, func(a, b int) bool { return out[a].Msg < out[b].Msg })
	return out
}

// refKind reduces a reference to its kind (stage and output), dropping the step name.
func refKind(refText string) string {
	parts := strings.Split(refText, ".")
	if len(parts) >= 4 && parts[1] == "steps" {
		return strings.Join(parts[3:], ".")
	}
	return refText
}

// OracleInputs is C02's rule over the observed world: every plugin execution (and every run
// deployment with deploy-time expressions) follows the events its expressions need, and the input it
// receives equals the evaluation of its expressions over what the producers really emitted.
func OracleInputs(prop string, v *View) []Violation {
	var out []Violation
	prog := v.C.Program
	// a stage input (or output) that the engine tried to evaluate before everything it refers to had
	// been produced shows up as an evaluation failure the model does not predict
	if c := v.C0; c != nil && c.Returned && c.Err != "" && strings.Contains(c.Err, "resolve expressions") && strings.Contains(c.Err, "not found") && len(v.Facts.RunError) == 0 && !c.Cancelled &&
		!anyGiveUpWithHeldUpGoroutine(v.R) { // (a loop that failed because an item's detector gave up over a held-up goroutine is C09's finding)
		out = append(out, viol(prop, "evaluated-before-dependency-produced", "", "the engine evaluated expressions before what they refer to existed (the model finds no run-time fault): %s", c.Err))
	}
	for src, evs := range v.Starts {
		p2, id := stepOfSrc(prog, src)
		if p2 != prog {
			continue
		}
		st := prog.Step(id)
		if st == nil {
			continue
		}
		ev := evs[0]
		// A step that starts while the run is being torn down may find a source closed whose result the
		// engine had not read yet, however long ago the plugin emitted it: its optional inputs may then be
		// absent (what is present must still be the source's value).
		sd := v.Shutdown
		if sd > 0 && ev.Seq > sd {
			sd = 1
		}
		obs := Observe(prog, v.Facts.Input, v.Events, ev.Seq-1, sd)
		r := obs.Eval(ir.Obj(st.In...))
		if r.St != ref.OK {
			continue // a start without its prerequisites is C04's finding
		}
		want, err := ref.PluginDefaults(r.V.(map[string]any))
		if err != nil {
			continue
		}
		got := harness.Canon(ev.Data["input"])
		if err := ref.Match(want, got); err != nil {
			out = append(out, viol(prop, "input-value", "", "step %s received input %s, but its expressions evaluated over what the producers emitted give %s: %v", id, harness.JSON(got), modelJSON(want), err))
		}
		for what, e := range map[string]*ir.Expr{"input": ir.Obj(st.In...), "wait_for": st.WaitFor, "enabled": st.Enabled} {
			if e == nil {
				continue
			}
			if bad, ok := producedBefore(obs, e, ev.Seq); !ok {
				out = append(out, viol(prop, "started-before-dependency", what+" refers to "+refKind(bad), "step %s started at decision %d but %s (needed by its %s) had not been produced before", id, ev.Seq, bad, what))
			}
		}
	}
	// deploy-time expressions: the run deployment follows what they need and uses their values
	for _, e := range v.Events {
		if e.Kind != world.EvDeployBegin || e.Probe {
			continue
		}
		p2, id := stepOfSrc(prog, e.Src)
		if p2 != prog {
			continue
		}
		st := prog.Step(id)
		if st == nil || st.Deploy == nil {
			continue
		}
		obs := Observe(prog, v.Facts.Input, v.Events, e.Seq-1)
		for name, x := range map[string]*ir.Expr{"latency_ms": st.Deploy.Latency, "mode": st.Deploy.Mode} {
			if x == nil {
				continue
			}
			if bad, ok := producedBefore(obs, x, e.Seq); !ok {
				out = append(out, viol(prop, "deployed-before-dependency", "", "step %s was deployed at decision %d but %s (needed by its deploy configuration) had not been produced before", id, e.Seq, bad))
				continue
			}
			r := obs.Eval(x)
			if r.St == ref.OK {
				if err := ref.Match(r.V, harness.Canon(e.Data[name])); err != nil {
					out = append(out, viol(prop, "deploy-value", "", "step %s was deployed with %s=%v, reference evaluation gives %v", id, name, e.Data[name], r.V))
				}
			}
		}
	}
	sort.Slice(out, func(a, b int) bool { return out[a].Msg < out[b].Msg })
	return out
}

// optionalRef reports whether x occurs in st only under a tag that does not require the producer.
func optionalRef(st *ir.Step, x *ir.Expr) bool {
	found := false
	for _, e := range st.Exprs() {
		ir.Walk(e, func(y *ir.Expr) {
			if (y.K == "opt" && y.Tag == "soft-optional") || y.K == "oneof" {
				ir.Walk(y, func(z *ir.Expr) {
					if z == x {
						found = true
					}
				})
			}
		})
	}
	return found
}

func seqs(evs []world.Event) []int64 {
	var out []int64
	for _, e := range evs {
		out = append(out, e.Seq)
	}
	return out
}

// OracleLeaks is C05's rule.
func OracleLeaks(prop string, v *View) []Violation {
	var out []Violation
	r := v.R
	for _, c := range r.Clients {
		if !c.Returned {
			continue
		}
		if len(c.OpenAtReturn) > 0 {
			var srcs []string
			for _, n := range c.OpenAtReturn {
				for _, d := range r.Deployments {
					if d.N == n {
						srcs = append(srcs, d.Src)
					}
				}
			}
			out = append(out, viol(prop, "deployment-open-at-return", "", "Execute of %s returned while deployments %v (%v) had not been closed", c.Name, c.OpenAtReturn, srcs))
		}
		if len(c.LeakedAtReturn) > 0 {
			out = append(out, viol(prop, "goroutine-alive-at-return", leakShape(c.LeakedAtReturn), "Execute of %s returned while engine goroutines were still alive: %s", c.Name, strings.Join(c.LeakedAtReturn, " | ")))
		}
	}
	if r.Outcome == "completed" && len(r.LiveAtEnd) > 0 {
		out = append(out, viol(prop, "goroutine-leak", leakShape(r.LiveAtEnd), "engine goroutines still alive after every call returned: %s", strings.Join(r.LiveAtEnd, " | ")))
	}
	// probes: every successful probe deployment closed by the time Prepare returned
	prepEnd := int64(-1)
	for _, e := range r.Events {
		if e.Kind == world.EvClient && e.Data["what"] == "prepare-end" {
			prepEnd = e.Seq
		}
	}
	if prepEnd >= 0 {
		closedBy := map[int]int64{}
		for _, e := range r.Events {
			if e.Kind == world.EvConnClose {
				if _, ok := closedBy[e.Dep]; !ok {
					closedBy[e.Dep] = e.Seq
				}
			}
		}
		for _, d := range r.Deployments {
			if d.Probe && d.OK {
				if s, ok := closedBy[d.N]; !ok || s > prepEnd {
					out = append(out, viol(prop, "probe-open-after-prepare", "", "schema probe deployment %d of %s was not closed when Prepare returned", d.N, d.Src))
				}
			}
		}
	}
	return out
}

func leakShape(l []string) string {
	// role of the first leaked goroutine: strip ordinals
	if len(l) == 0 {
		return ""
	}
	name := strings.Fields(l[0])[0]
	parts := strings.Split(name, "/")
	last := parts[len(parts)-1]
	if i := strings.Index(last, "#"); i > 0 {
		last = last[:i]
	}
	if len(parts) > 1 {
		return parts[len(parts)-2] + "/" + last
	}
	return last
}

// OracleTypes is C08's rule on what is observable from outside: plugin inputs validate against the
// plugin's input schema (the scripted plugin's own Unserialize already ran: a value that does not fit
// never reaches the handler), the returned output validates against the declared output schema, and
// no `bug:` error or log appears.
func OracleTypes(prop string, v *View) []Violation {
	var out []Violation
	c := v.C0
	kinds := engineKinds(v)
	add := func(vv Violation) {
		if vv.Rule == "evaluation-fails-on-declared-types" {
			// what identifies the input: how plugin integers and engine-generated objects are used
			for _, k := range kinds {
				if strings.HasPrefix(k, "plugin integer") || k == "crashed.error.<field>" || k == "deploy_failed.error.<field>" {
					vv.Parts = append(vv.Parts, k)
				}
			}
		}
		if len(kinds) > 0 {
			vv.Msg += "; engine-generated values referenced by the workflow: " + strings.Join(kinds, ", ")
		}
		out = append(out, vv)
	}
	if c != nil && c.Returned {
		if c.ErrClass == "bug" {
			vv := viol(prop, "bug-error", bugShape(c.Err), "run returned an internal consistency error: %s", c.Err)
			if strings.Contains(c.Err, "This field is required") && strings.Contains(c.Err, "schema evaluation resulted in invalid data") && optionalFeedsRequired(v.C.Program) {
				// a wait-optional in the required field `a` of a step, absent in this run (known finding KF-C08-4)
				vv.Shape += "; an optional expression feeds a required field"
			}
			if strings.Contains(c.Err, "'hl' -> '[") {
				// the generated list of two differently shaped objects: its item schema is inferred from the
				// first item only (known finding KF-C08-3)
				vv.Shape += "; in a list literal of differently shaped objects"
			}
			add(vv)
		} else if c.Err != "" && strings.Contains(c.Err, "resolve expressions") && len(v.Facts.RunError) == 0 &&
			!(c.Cancelled && strings.Contains(c.Err, "not found")) && !anyGiveUpWithHeldUpGoroutine(v.R) {
			// (nor is it about types when the detector of a loop item's run gave up over a held-up goroutine -
			// C09's finding: the loop then fails although the model's loop succeeds, and a lookup in its
			// error output is evaluated that the model never reaches)
			// (a cancelled run may produce error-path outputs the uncancelled model does not have - a loop
			// whose items were aborted - and looking up an item that is not in them fails legitimately)
			// the workflow was accepted, every value has the declared type according to the model, and still
			// an expression cannot be evaluated: some value does not have its declared type
			add(viol(prop, "evaluation-fails-on-declared-types", msgClass(c.Err), "an accepted workflow failed to evaluate although the model finds no run-time fault: %s", c.Err))
		}
		if c.Err == "" && v.R.Prepared != nil {
			sch, ok := v.R.Prepared.OutputSchema()[c.OutputID]
			if !ok {
				add(viol(prop, "output-schema", "", "returned output %q has no declared schema", c.OutputID))
			} else if _, err := sch.Unserialize(v.R.Clients[0].OutputData); err != nil {
				add(viol(prop, "output-schema", msgClass(err.Error()), "returned output %q does not validate against its declared schema: %v", c.OutputID, err))
			}
		}
	}
	for _, b := range v.R.BugLogs {
		sh := bugShape(b)
		if strings.Contains(b, "This field is required") && strings.Contains(b, "schema evaluation resulted in invalid data") && optionalFeedsRequired(v.C.Program) {
			sh += "; an optional expression feeds a required field"
		}
		add(viol(prop, "bug-log", sh, "engine logged an internal consistency error: %s", b))
		break
	}
	return out
}

// engineKinds lists the kinds of engine-generated stage outputs (not plugin outputs) the program
// refers to anywhere: they identify the input shape of a type-soundness finding.
func engineKinds(v *View) []string {
	kinds := map[string]bool{}
	visit := func(e *ir.Expr) {
		ir.Walk(e, func(x *ir.Expr) {
			if x.K != "ref" || len(x.Path) < 3 || x.Path[0] != "steps" {
				return
			}
			stage := x.Path[2].(string)
			st := v.C.Program.Step(x.Path[1].(string))
			if stage == "outputs" && (st == nil || st.Kind == "plugin") {
				if uses := arithmeticUse(v.C.Program, x); uses != "" {
					kinds["plugin integer used in "+uses] = true
				}
				return
			}
			k := stage
			if len(x.Path) > 3 {
				k += "." + x.Path[3].(string)
			}
			if len(x.Path) > 4 {
				k += ".<field>"
			}
			if st != nil && st.Kind != "plugin" {
				k = "loop " + k
			}
			kinds[k] = true
		})
	}
	for _, s := range v.C.Program.Steps {
		for _, e := range s.Exprs() {
			visit(e)
		}
	}
	for _, o := range v.C.Program.Outputs {
		visit(o.E)
	}
	return keys(kinds)
}

// arithmeticUse reports whether the reference x occurs as an operand of an operator or a function.
func arithmeticUse(p *ir.Program, x *ir.Expr) string {
	use := ""
	check := func(e *ir.Expr) {
		ir.Walk(e, func(y *ir.Expr) {
			if y.K == "op" || y.K == "call" {
				for _, a := range y.Args {
					if a == x {
						if y.K == "op" {
							use = "an operator"
						} else {
							use = "a function call"
						}
					}
				}
			}
		})
	}
	for _, s := range p.Steps {
		for _, e := range s.Exprs() {
			check(e)
		}
	}
	for _, o := range p.Outputs {
		check(o.E)
	}
	return use
}

var convRe = regexp.MustCompile(`([\w.\[\]\*]+) cannot be converted to an? (\w+)`)

func bugShape(msg string) string {
	if m := convRe.FindStringSubmatch(msg); m != nil {
		return bugShape0(msg) + ": " + m[1] + " cannot be converted to " + m[2]
	}
	return bugShape0(msg)
}

func bugShape0(msg string) string {
	// keep the part up to the first parenthesis: the kind of bug, not the data
	m := msg
	if i := strings.Index(strings.ToLower(m), "bug:"); i >= 0 {
		m = m[i:]
	}
	if i := strings.Index(m, "("); i > 0 {
		m = m[:i]
	}
	// strip node ids
	f := strings.Fields(m)
	if len(f) > 8 {
		f = f[:8]
	}
	return strings.Join(f, " ")
}

// OraclePrompt is C01's promptness rule: once no output is producible any more (by the model) and
// the adversarial prefix is over, Execute returns within the grace period plus the closure timeouts.
func OraclePrompt(prop string, v *View) []Violation {
	c := v.C0
	if c == nil || !c.Returned || v.R.Outcome != "completed" {
		return nil
	}
	if len(v.Facts.Producible) > 0 || len(v.Facts.Pending) > 0 {
		return nil
	}
	L := v.C.Policy.L
	if v.C.Policy.Kind == "fifo" || v.C.Policy.Kind == "" {
		L = 0
	}
	tAdv := int64(-1)
	for _, d := range v.R.Journal {
		if d.N >= L {
			tAdv = d.At
			break
		}
	}
	if tAdv < 0 || c.EndSeq < L {
		return nil // the run ended inside the adversarial prefix: no bound is claimed there
	}
	hanging := map[string]bool{}
	for id, sf := range v.Facts.Steps {
		if sf.Hangs {
			hanging[v.C.Program.Src(id)] = true
		}
	}
	tNat := c.StartUS
	for _, e := range v.R.Events {
		switch e.Kind {
		case world.EvExecEnd, world.EvDeployFail, world.EvExecStart, world.EvDeployOK:
			if !hanging[e.Src] && !e.Probe && e.AtUS > tNat && e.Seq <= c.EndSeq {
				tNat = e.AtUS
			}
		}
	}
	var closure int64
	for _, s := range v.C.Program.Steps {
		if s.Kind != "plugin" {
			continue
		}
		if s.Closure != nil {
			closure += *s.Closure * 1000
		} else {
			closure += 5000 * 1000
		}
	}
	from := tNat
	if tAdv > from {
		from = tAdv
	}
	bound := int64(5_000_000) + closure + 1_000_000
	if c.EndUS > from+bound {
		sh, parts := hangShape(v)
		vv := viol(prop, "not-prompt", sh, "no output was producible from t=%dus (fair from t=%dus) but Execute returned only at t=%dus (bound %dus)", tNat, tAdv, c.EndUS, bound)
		vv.Parts = parts
		return []Violation{vv}
	}
	return nil
}

// runRoot is the name of the goroutine that runs the (sub-)workflow a goroutine belongs to: the prefix
// of its name up to the innermost loop worker (with its instance number: every item has its own
// sub-workflow run), or the client itself.
func runRoot(name string) string {
	root := name
	locs := spawnPart.FindAllStringIndex(name, -1)
	if len(locs) > 0 && locs[0][0] > 0 {
		root = name[:locs[0][0]-1] // what precedes the first go statement: env/client/<name>, env/main
	}
	for _, loc := range locs {
		if spawnFunc[stripInstances(name[loc[0]:loc[1]])] == "*runningStep.executeSubWorkflows" {
			root = name[:loc[1]]
		}
	}
	return root
}

func stripInstances(name string) string {
	return instanceNo.ReplaceAllString(name, "")
}

var instanceNo = regexp.MustCompile(`#\d+`)
var spawnPart = regexp.MustCompile(`[^/]+/[^/]+\.go:\d+(#\d+)?`)

// stalledShape says where the step goroutines of a (sub-)workflow were held up by the scheduler when
// that workflow's fallback detector gave up (identified by function, not by line, so it survives
// unrelated edits). Only goroutines of the detector's own workflow count: the steps of a sub-workflow
// that is still running are covered by the loop step's own "running" state. The second result says
// whether any was held up at all.
func stalledShape(v *View) (string, bool) {
	sh, held, _ := stalledShapeParts(v)
	return sh, held
}

// stalledShapeParts is stalledShape plus, for the goroutines waiting to enter a notification, what each
// of them had last written to a step state field and where ("finished in *runningStep.completeStep"):
// the step claims that state while the notification that justifies it is still undelivered.
func stalledShapeParts(v *View) (string, bool, []string) {
	if v.C0 == nil || len(v.R.Snapshots) == 0 {
		return "", false, nil
	}
	// the give-up that explains the result: the run's own if it failed with that error, else a sub-run's
	var sn *simrt.Snapshot
	for i := range v.R.Snapshots {
		x := &v.R.Snapshots[i]
		top := !strings.Contains(runRoot(x.G), "provider.go:")
		if top == (v.C0.ErrClass == "no-more-steps") && strings.HasPrefix(x.G, "env/client/"+v.C0.Name+"/") {
			sn = x // the first give-up of this client's run is the one that ended it
			break
		}
	}
	if sn == nil {
		return "", false, nil
	}
	return snapshotShape(sn)
}

// snapshotShape classifies one give-up of a fallback detector by where the goroutines of its own
// (sub-)workflow were held up (see stalledShape).
func snapshotShape(sn *simrt.Snapshot) (string, bool, []string) {
	root := runRoot(sn.G)
	prefix := ""
	if strings.Contains(root, "provider.go:") {
		prefix = "; the detector of a sub-workflow gave up"
	}
	inNotify, elsewhere := 0, map[string]bool{}
	claims := map[string]bool{}
	claim := func(name string) {
		st, ok := sn.States[name]
		if !ok {
			claims["no state written"] = true
			return
		}
		i := strings.Index(st, "@")
		claims[st[:i]+" in "+SiteFunc[st[i+1:]]] = true
	}
	for _, o := range sn.Others {
		if strings.Contains(o, " after@") {
			continue // blocked natively: not runnable, so not held up by the scheduler
		}
		i := strings.LastIndex(o, "@")
		role, site := o[:i], strings.TrimPrefix(o[i+1:], "go:")
		if runRoot(role) != root {
			continue // another (sub-)workflow, or another item's run of the same sub-workflow
		}
		fn := SiteFunc[site]
		if role == root {
			// the goroutine that runs the workflow: late in collecting the result is harmless, held up
			// on its way into the run lock is not
			if SiteKind[site] == "lock" {
				elsewhere[fn+" (the run goroutine)"] = true
			}
			continue
		}
		if sp := SpawnedIn(role); len(sp) > 0 && sp[len(sp)-1] == "*loopState.checkForDeadlocks" {
			continue // an earlier retry of the detector itself, not a step
		}
		switch {
		case fn == "*loopState.onStageComplete" && SiteKind[site] == "lock":
			inNotify++
			claim(role)
		case fn == "*executableWorkflow.Execute" && SiteKind[site] == "lock":
			inNotify++ // the onStepStageFailure closure
			claim(role)
		default:
			elsewhere[fn] = true
		}
	}
	if inNotify > 0 {
		return prefix + "; a held-up step goroutine is waiting to enter a stage-change notification", true, keys(claims)
	}
	if len(elsewhere) == 0 {
		return prefix + "; no step goroutine was held up", false, nil
	}
	return prefix + "; step goroutines held up in: " + strings.Join(keys(elsewhere), ","), true, nil
}

// stoppedBeforeStart is C04's third clause: a step whose stop condition fired before it could start
// never executes. It is decided on simulated time and therefore only for runs in which time never
// passed while a goroutine could still run (no voluntary time passing, no starvation): then
// everything the stop source's completion triggers has happened before the clock moves on.
func stoppedBeforeStart(prop string, v *View, obs *ref.Facts) []Violation {
	if v.C.Policy.PTime != 0 || v.C.Policy.Kind == "starve" || (v.C.Policy.Kind == "holdat" && v.C.Policy.WindowUS > 0) {
		return nil // time passes while a goroutine that could run is held back
	}
	at := map[string]int64{} // "step.stage.output" -> simulated time of production
	for _, e := range v.Events {
		if e.Kind == world.EvExecStart && !e.Probe {
			// (the engine reports starting.started before it asks the plugin to start: not later than this)
			_, id := stepOfSrc(v.C.Program, e.Src)
			if _, ok := at[id+".starting.started"]; !ok {
				at[id+".starting.started"] = e.AtUS
			}
		}
		if e.Kind == world.EvExecEnd && !e.Probe {
			_, id := stepOfSrc(v.C.Program, e.Src)
			if o, _ := e.Data["output"].(string); o != "" {
				at[id+".outputs."+o] = e.AtUS
				if _, ok := at[id+".outputs"]; !ok {
					at[id+".outputs"] = e.AtUS
				}
			}
		}
	}
	var out []Violation
	for src, evs := range v.Starts {
		prog, id := stepOfSrc(v.C.Program, src)
		st := prog.Step(id)
		if prog != v.C.Program || st == nil || st.StopIf == nil || st.StopIf.K != "ref" || len(st.StopIf.Path) < 3 {
			continue
		}
		key := st.StopIf.Path[1].(string) + "." + st.StopIf.Path[2].(string)
		if len(st.StopIf.Path) > 3 {
			key += "." + st.StopIf.Path[3].(string)
		}
		ts, ok := at[key]
		if !ok {
			continue
		}
		// when did the last thing the step needs in order to start become available?
		tp := int64(-1)
		for _, e := range []*ir.Expr{ir.Obj(st.In...), st.WaitFor, st.Enabled} {
			ir.Walk(e, func(x *ir.Expr) {
				if x.K != "ref" || len(x.Path) < 4 || x.Path[0] != "steps" {
					return
				}
				if t, ok := at[x.Path[1].(string)+"."+x.Path[2].(string)+"."+x.Path[3].(string)]; ok && t > tp {
					tp = t
				}
			})
		}
		if tp > ts && evs[0].AtUS >= tp {
			out = append(out, viol(prop, "ran-although-stopped-before-start", "", "step %s executed plugin code at t=%dus although its stop condition (%s) had fired at t=%dus, before what it needed to start became available at t=%dus", id, evs[0].AtUS, ir.ExprText(st.StopIf), ts, tp))
		}
	}
	return out
}

// anyGiveUpWithHeldUpGoroutine says whether some fallback detector of the run gave up while a goroutine
// of its own (sub-)workflow was held up by the scheduler: the run's result is then C09's business.
func anyGiveUpWithHeldUpGoroutine(r *harness.Result) bool {
	for i := range r.Snapshots {
		if _, held, _ := snapshotShape(&r.Snapshots[i]); held {
			return true
		}
	}
	return false
}

// optionalFeedsRequired reports whether some plugin step's required input `a` is an optional expression.
func optionalFeedsRequired(p *ir.Program) bool {
	for _, st := range p.Steps {
		if st.Kind != "plugin" {
			continue
		}
		for _, f := range st.In {
			if f.Name == "a" && f.E != nil && f.E.K == "opt" && f.E.Tag != "ordisabled" {
				return true
			}
		}
	}
	return false
}
