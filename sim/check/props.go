package check

import (
	"go.flow.arcalot.io/engine/zverif/harness"
	"go.flow.arcalot.io/engine/zverif/ir"
	"go.flow.arcalot.io/engine/zverif/simrt"
	"math"
	"os"
	"pgregory.net/rapid"
	"strings"
)

// PropDef is the generator and the oracle of one property.
type PropDef struct {
	ID    string
	Gen   func(t *rapid.T) *Case
	Check func(c *Case, r *harness.Result) []Violation
}

// Props is the registry of claimed properties.
var Props = map[string]*PropDef{}

func register(p *PropDef) { Props[p.ID] = p }

var allBad = []string{"err", "crash", "alt", "panic", "badout"}
var someDurs = []int64{0, 1, 5, 20, 100, 1000}

func pickProfile(t *rapid.T, profs []*ir.Profile) *ir.Profile {
	if only := os.Getenv("VERIF_PROFILE"); only != "" {
		// a debugging aid: explore one profile only
		for _, p := range profs {
			if p.Name == only {
				return p
			}
		}
	}
	return profs[rapid.IntRange(0, len(profs)-1).Draw(t, "profile")]
}

// genS1 draws a fixed-meaning case from one of the given profiles.
func genS1(t *rapid.T, prop string, profs []*ir.Profile, adversarial bool) *Case {
	prof := pickProfile(t, profs)
	doc := ir.GenDoc(t, prof.Foreach > 0 || prof.RuntimeErr > 0, 4)
	prog := ir.GenProgram(t, prof, doc)
	c := &Case{Property: prop, Profile: prof.Name, Class: "S1", Program: prog, Doc: doc}
	c.Policy = GenPolicy(t, adversarial)
	c.MapMode, c.MapSeed = GenMapOrder(t)
	return c
}

func s1Check(prop string, oracles ...func(string, *View) []Violation) func(c *Case, r *harness.Result) []Violation {
	return func(c *Case, r *harness.Result) []Violation {
		if r.PrepareErr != "" && (c.Program.DefaultM != "" || c.Program.EnumDefault != "") && strings.Contains(r.PrepareErr, "default") {
			return nil // the generated odd default was refused: a verdict, not a crash
		}
		if r.PrepareErr != "" && c.Program.SamePathTags && strings.Contains(r.PrepareErr, "already exists") {
			return nil // the engine's node ids for tagged values collide: a refusal, wrong but harmless
		}
		if r.PrepareErr != "" {
			return []Violation{viol(prop, "prepare-rejected-generated-program", "", "a well-typed generated program was rejected: %s", r.PrepareErr)}
		}
		// An engine panic is C07's finding; the other oracles are not evaluated on such a run.
		if len(r.Panics) > 0 {
			if prop == "C07" {
				return OracleNoPanic(prop, r)
			}
			return nil
		}
		v, err := NewView(c, r)
		if err != nil {
			return []Violation{{Property: prop, Rule: "harness", Msg: err.Error()}}
		}
		var out []Violation
		for _, o := range oracles {
			out = append(out, o(prop, v)...)
		}
		return out
	}
}

func init() {
	// ---- C09: the result does not depend on how fast goroutines are scheduled ----
	c09 := []*ir.Profile{
		{Name: "c09-tiny", MinSteps: 1, MaxSteps: 2, Durs: []int64{0, 1, 10, 50}, PWaitFor: 30, PDeploySlow: 30},
		{Name: "c09-small", MinSteps: 2, MaxSteps: 4, Durs: someDurs, PWaitFor: 40, PDeploySlow: 30, PDisabled: 20, PNoSignal: 20},
		{Name: "c09-errpath", MinSteps: 1, MaxSteps: 3, Durs: []int64{0, 5, 40}, Modes: []string{"err", "crash"}, PBad: 40, ErrOutput: true, PDeployFail: 20},
	}
	// disabled steps whose disabled.output something depends on (one-of ran/off, !ordisabled)
	c09 = append(c09, &ir.Profile{Name: "c09-disabled", MinSteps: 2, MaxSteps: 3, Durs: []int64{0, 5, 40}, Tags: true, PDisabled: 60, PWaitFor: 20})
	c09 = append(c09, &ir.Profile{Name: "c09-loop", ItemsFromStep: 30, MinSteps: 1, MaxSteps: 2, Durs: []int64{0, 1, 10}, Foreach: 70, PWaitFor: 20})
	register(&PropDef{ID: "C09",
		Gen: func(t *rapid.T) *Case {
			c := genS1(t, "C09", c09, true)
			if rapid.IntRange(0, 2).Draw(t, "delay_after_state_write") == 0 {
				// the property's own concern: a step has just claimed a state (waiting, finished) and what it
				// does next is delayed for longer than the detector's three retries
				c.Policy = simrt.PolicySpec{Kind: "holdat", Seed: c.Policy.Seed, L: 1500,
					HoldState: rapid.IntRange(1, 40).Draw(t, "hold_state"),
					WindowUS:  rapid.SampledFrom([]int64{45000, 200000, 200000, 6000000}).Draw(t, "state_window_us"),
					Shuffle:   rapid.Bool().Draw(t, "shuffle"), PSelect: c.Policy.PSelect}
			}
			return c
		},
		Check: s1Check("C09", OracleTerminates, OracleResult),
	})

	// ---- C03: the run result is the one the workflow's meaning prescribes ----
	c03 := []*ir.Profile{
		{Name: "c03-multi", PStopFalse: 15, StageRefs: 20, PSimple: 25, MinSteps: 1, MaxSteps: 5, Durs: someDurs, Modes: allBad, PBad: 35, PDeployFail: 15, PDisabled: 25, PWaitFor: 30, MaxOutputs: 3, PErrPathRef: 15, DeepExpr: true},
		{Name: "c03-errout", MinSteps: 1, MaxSteps: 4, Durs: someDurs, Modes: []string{"err", "crash", "panic"}, PBad: 60, PDeployFail: 25, PDisabled: 30, ErrOutput: true, MaxOutputs: 3},
		{Name: "c03-tags", MinSteps: 2, MaxSteps: 4, Durs: someDurs, Tags: true, Modes: []string{"err", "crash"}, PBad: 30, PDisabled: 30, PDeployFail: 10, MaxOutputs: 2, ErrOutput: true},
		{Name: "c03-plain", PStopFalse: 20, MinSteps: 2, MaxSteps: 6, Durs: someDurs, PWaitFor: 50, PDeploySlow: 40, MaxOutputs: 2, DeepExpr: true},
	}
	register(&PropDef{ID: "C03",
		Gen:   func(t *rapid.T) *Case { return genS1(t, "C03", c03, rapid.IntRange(0, 3).Draw(t, "adv") > 0) },
		Check: s1Check("C03", OracleResult),
	})

	// ---- C01: every run terminates with one output or an error ----
	c01 := []*ir.Profile{
		{Name: "c01-mixed", MinSteps: 1, MaxSteps: 8, Durs: someDurs, Modes: allBad, PBad: 45, PDeployFail: 20, PDisabled: 20, PWaitFor: 30, MaxOutputs: 3, PErrPathRef: 20},
		{Name: "c01-fanin", MaxSteps: 24, FanIn: 24, Durs: []int64{5}, EqualDur: true, Modes: []string{"err", "crash"}, PBad: 100},
		{Name: "c01-fanin-mixed", MaxSteps: 30, FanIn: 30, Durs: []int64{0, 5}, Modes: []string{"err", "crash", "panic"}, PBad: 70, PDeployFail: 20},
		{Name: "c01-fanin-rterr", MaxSteps: 26, FanIn: 26, Durs: []int64{0, 5}, RuntimeErr: 90},
		// loops whose `enabled` value depends on a step that may fail, with outputs fed only by error-path stages
		{Name: "c01-loop-waits", MinSteps: 2, MaxSteps: 3, Durs: []int64{0, 5}, Foreach: 60, PDisabled: 80, PluginArith: true, Modes: []string{"err", "crash"}, PBad: 50, ErrOutput: true, OnlyErrOutputs: true, MaxOutputs: 2},
		{Name: "c01-island", MinSteps: 1, MaxSteps: 3, Durs: []int64{0, 5, 50}, Modes: []string{"err", "crash"}, PBad: 60, PDeployFail: 20, HangIsland: true, MaxOutputs: 2},
		{Name: "c01-island-ignores", MinSteps: 1, MaxSteps: 3, Durs: []int64{0, 5, 50}, Modes: []string{"err"}, PBad: 30, HangIsland: true, IslandIgnoresCancel: true, MaxOutputs: 2},
		{Name: "c01-errpath-only", MinSteps: 1, MaxSteps: 3, Durs: []int64{0, 5, 50}, Modes: []string{"err", "crash"}, PBad: 30, PDeployFail: 10, PDisabled: 20, ErrOutput: true, OnlyErrOutputs: true, MaxOutputs: 2},
		{Name: "c01-errpath-island", MinSteps: 1, MaxSteps: 2, Durs: []int64{0, 5}, Modes: []string{"err"}, PBad: 20, ErrOutput: true, OnlyErrOutputs: true, HangIsland: true},
		{Name: "c01-neverfail-island", MinSteps: 1, MaxSteps: 2, Durs: []int64{0, 5}, ErrOutput: true, OnlyErrOutputs: true, HangIsland: true, StructRefs: true},
		{Name: "c01-neverfail", MinSteps: 1, MaxSteps: 3, Durs: []int64{0, 5, 50}, ErrOutput: true, OnlyErrOutputs: true, StructRefs: true, MaxOutputs: 2},
		{Name: "c01-recovery", MinSteps: 2, MaxSteps: 4, Durs: []int64{0, 5, 50}, Modes: []string{"err", "alt"}, PBad: 40, PDisabled: 20, WaitOnNeverPath: 60, PWaitFor: 30, MaxOutputs: 2},
		{Name: "c01-loops", ItemsFromStep: 30, MinSteps: 2, MaxSteps: 4, Durs: []int64{0, 5, 100}, Foreach: 50, Modes: []string{"err", "crash"}, PBad: 50, PDeployFail: 10, MaxOutputs: 2},
		{Name: "c01-stop", MinSteps: 1, MaxSteps: 3, Durs: []int64{0, 5, 50}, StopIf: true},
	}
	c01 = append(c01, c01[len(c01)-1]) // the stop shape twice: it is one shape among many profiles
	// ... and with the output waiting for the crash report of the stopped step (when it ignores the signal)
	c01 = append(c01, &ir.Profile{Name: "c01-stop-crash", MinSteps: 1, MaxSteps: 2, Durs: []int64{0, 5}, StopIf: true, StructRefs: true})
	register(&PropDef{ID: "C01",
		Gen:   func(t *rapid.T) *Case { return genS1(t, "C01", c01, true) },
		Check: s1Check("C01", OracleTerminates, OraclePrompt),
	})

	// ---- C02: steps start only after their dependencies, with the data those produced ----
	c02 := []*ir.Profile{
		{Name: "c02-chains", PDeployExpr: 40, MinSteps: 2, MaxSteps: 7, Durs: someDurs, PWaitFor: 60, PDeploySlow: 50, DeepExpr: true, PNoSignal: 20},
		{Name: "c02-mixed", PDeployExpr: 30, MinSteps: 2, MaxSteps: 6, Durs: someDurs, Modes: []string{"err", "alt", "crash"}, PBad: 25, PErrPathRef: 25, PWaitFor: 50, PDeploySlow: 40, PDisabled: 15, MaxOutputs: 2, DeepExpr: true},
	}
	register(&PropDef{ID: "C02",
		Gen:   func(t *rapid.T) *Case { return genS1(t, "C02", c02, true) },
		Check: s1Check("C02", OracleInputs),
	})

	// ---- C04: a step never executes if a prerequisite failed, it is disabled or stopped first ----
	c04 := []*ir.Profile{
		{Name: "c04-failing", MinSteps: 2, MaxSteps: 6, Durs: someDurs, Modes: allBad, PBad: 45, PDeployFail: 25, PWaitFor: 60, PErrPathRef: 20, MaxOutputs: 3, ErrOutput: true},
		{Name: "c04-disabled", GuardFaults: 15, PStopFalse: 15, PLiteralFalse: 30, MinSteps: 2, MaxSteps: 5, Durs: someDurs, Modes: []string{"err"}, PBad: 20, PDisabled: 70, PWaitFor: 50, MaxOutputs: 3, ErrOutput: true, PErrPathRef: 30},
	}
	c04 = append(c04, &ir.Profile{Name: "c04-stop-before-start", MinSteps: 0, MaxSteps: 2, Durs: []int64{0, 5}, StopBeforeStart: true})
	register(&PropDef{ID: "C04",
		Gen: func(t *rapid.T) *Case {
			c := genS1(t, "C04", c04, true)
			if c.Profile == "c04-stop-before-start" {
				// the "stopped before it started" rule is decided on simulated time, which is only sound
				// when time never passes while a goroutine could still run (see DESIGN §6 C04)
				c.Policy.PTime = 0
				if c.Policy.Kind == "starve" {
					c.Policy.Kind = "pct"
					c.Policy.Depth = 2
				}
				if c.Policy.Kind == "holdat" {
					c.Policy.WindowUS = 0 // held only until nothing else can run: no time passes meanwhile
				}
			}
			return c
		},
		Check: s1Check("C04", OracleMayRun),
	})

	// ---- C07: run-time evaluation and step failures surface as errors, never as a crash ----
	c07 := []*ir.Profile{
		{Name: "c07-rterr", PluginArith: true, StructRefs: true, MinSteps: 1, MaxSteps: 4, Durs: []int64{0, 5}, RuntimeErr: 80, DeepExpr: true, PWaitFor: 20},
		{Name: "c07-misbehave", PluginArith: true, StructRefs: true, MinSteps: 1, MaxSteps: 5, Durs: []int64{0, 5, 50}, Modes: []string{"panic", "badout", "crash", "err"}, PBad: 70, PDeployFail: 20, ErrOutput: true, MaxOutputs: 3, PErrPathRef: 60},
		{Name: "c07-loops", ItemsFromStep: 50, OptionalItems: 50, MinSteps: 1, MaxSteps: 3, Durs: []int64{0, 5}, Foreach: 60, Modes: []string{"err", "crash"}, PBad: 40, ErrOutput: true, MaxOutputs: 2},
	}
	register(&PropDef{ID: "C07",
		Gen: func(t *rapid.T) *Case {
			if rapid.IntRange(0, 2).Draw(t, "with_conn_faults") == 0 {
				// connection-level misbehaviour: the stream dies mid-message, the deployed plugin lacks the step, closing fails
				return genS2(t, "C07", c07[1:2], 0, 0, 50)
			}
			c := genS1(t, "C07", c07, rapid.Bool().Draw(t, "adv"))
			if rapid.IntRange(0, 5).Draw(t, "extreme_numbers") == 0 {
				// schema-valid extremes: the arithmetic and conversion paths must take them without a panic
				c.Doc["n"] = rapid.SampledFrom([]int64{-1, math.MaxInt64, math.MinInt64, math.MaxInt32 + 1, -7}).Draw(t, "extreme_n")
				if rapid.Bool().Draw(t, "extreme_m") {
					c.Doc["m"] = rapid.SampledFrom([]int64{-1, math.MaxInt64, math.MinInt64}).Draw(t, "extreme_m_v")
				}
			}
			if rapid.IntRange(0, 9).Draw(t, "odd_default") == 0 {
				// a declared default that does not fit its field: refused at preparation or at the run, with
				// an error either way
				if rapid.IntRange(0, 2).Draw(t, "odd_default_on_enum") == 0 {
					// an enumeration of strings: its default is JSON too (an unquoted word is not)
					c.Program.EnumDefault = rapid.SampledFrom([]string{"low", "'\"low\"'", "'\"nosuch\"'", "'7'", "high"}).Draw(t, "enum_default_text")
				} else {
					c.Program.DefaultM = rapid.SampledFrom([]string{"abc", "'true'", "'1.5'", "'null'", "'[1]'", "'{'", "1e2", "'\"7\"'"}).Draw(t, "odd_default_text")
				}
				if rapid.Bool().Draw(t, "default_used") {
					delete(c.Doc, "m")
					for i := range c.Clients {
						if m, ok := c.Clients[i].Input.(map[string]any); ok {
							delete(m, "m")
						}
					}
				}
			}
			return c
		},
		Check: s1Check("C07", OracleC07),
	})

	// ---- C08: accepted workflows are type-sound ----
	c08 := []*ir.Profile{
		{Name: "c08-engine-outputs", StageRefs: 30, PSimple: 40, PluginArith: true, StructRefs: true, MinSteps: 1, MaxSteps: 4, Durs: []int64{0, 5, 50}, Modes: allBad, PBad: 60, PDeployFail: 30, PDisabled: 40, ErrOutput: true, MaxOutputs: 3, PErrPathRef: 50, PWaitFor: 20},
		{Name: "c08-stage-objects", MinSteps: 2, MaxSteps: 3, Durs: []int64{0, 5}, Modes: []string{"err"}, PBad: 45, PSimple: 70, StageRefs: 80, PDisabled: 15, MaxOutputs: 1},
		{Name: "c08-loops", ItemsFromStep: 30, MinSteps: 1, MaxSteps: 3, Durs: []int64{0, 5}, Foreach: 70, Modes: []string{"err", "alt"}, PBad: 40, ErrOutput: true, MaxOutputs: 2},
		{Name: "c08-tags", OptionalRequired: 20, Tags: true, MinSteps: 2, MaxSteps: 4, Durs: []int64{0, 5}, Modes: []string{"err"}, PBad: 25, PDisabled: 30, MaxOutputs: 1},
		{Name: "c08-plain", HeteroList: 12, PluginArith: true, MinSteps: 1, MaxSteps: 5, Durs: someDurs, PWaitFor: 40, DeepExpr: true, MaxOutputs: 2},
	}
	register(&PropDef{ID: "C08",
		Gen: func(t *rapid.T) *Case {
			if rapid.IntRange(0, 5).Draw(t, "closed_result") == 0 {
				// a step closed while it waits (caller cancellation) reports closed.result; the run may return it
				c := genS2(t, "C08", []*ir.Profile{{Name: "c08-closed", MinSteps: 1, MaxSteps: 2, Durs: []int64{0, 5}, ClosedOutput: true, PNoSignal: 30}}, 100, 0, 0)
				c.Clients[0].CancelAtDecision, c.Clients[0].CancelAfterUS = 0, rapid.SampledFrom([]int64{100, 5000, 100000, 1000000}).Draw(t, "closed_cancel_us")
				return c
			}
			if rapid.IntRange(0, 3).Draw(t, "loops_cancelled") == 0 {
				// a loop that is closed in the middle of its run (caller cancellation) still has to report well-typed data
				return genS2(t, "C08", c08[2:3], 70, 0, 0)
			}
			return genS1(t, "C08", c08, rapid.Bool().Draw(t, "adv"))
		},
		Check: s1Check("C08", OracleTypes),
	})
}

func init() {
	// ---- C15: optional, one-of and or-disabled inputs mean what their tags say ----
	c15 := []*ir.Profile{
		{Name: "c15-tags", SamePathTags: 10, ErrorPathWaits: true, MinSteps: 2, MaxSteps: 5, Durs: someDurs, Tags: true, PDisabled: 45, PWaitFor: 20, PDeploySlow: 30, MaxOutputs: 1},
		{Name: "c15-tags-failing", SamePathTags: 10, ErrorPathWaits: true, MinSteps: 2, MaxSteps: 5, Durs: someDurs, Tags: true, Modes: []string{"err", "crash", "alt"}, PBad: 35, PDeployFail: 15, PDisabled: 35, PWaitFor: 20, MaxOutputs: 2, ErrOutput: true},
		{Name: "c15-tags-loops", ErrorPathWaits: true, ItemsFromStep: 30, MinSteps: 2, MaxSteps: 4, Durs: []int64{0, 5, 50}, Tags: true, Foreach: 35, Modes: []string{"err"}, PBad: 25, PDisabled: 25, MaxOutputs: 1},
		{Name: "c15-tags-hang", MinSteps: 2, MaxSteps: 4, Durs: []int64{0, 5, 50}, Tags: true, PDisabled: 30, SoftHang: true},
	}
	register(&PropDef{ID: "C15",
		Gen:   func(t *rapid.T) *Case { return genS1(t, "C15", c15, true) },
		Check: s1Check("C15", OracleTerminates, OracleResult, OracleInputs),
	})
}

// OracleC07: a run ends with an error or a consistent output; panics are handled by s1Check.
func OracleC07(prop string, v *View) []Violation {
	if v.R.Outcome != "completed" {
		return nil // hangs are C01's business
	}
	return nil
}
