module go.flow.arcalot.io/engine/zverif

go 1.26

require (
	github.com/anishathalye/porcupine v1.3.0
	go.arcalot.io/log/v2 v2.2.0
	go.flow.arcalot.io/deployer v0.6.1
	go.flow.arcalot.io/engine v0.0.0
	go.flow.arcalot.io/pluginsdk v0.14.3
	pgregory.net/rapid v1.3.0
)

require (
	github.com/davecgh/go-spew v1.1.2-0.20180830191138-d8f796af33cc // indirect
	github.com/distribution/reference v0.6.0 // indirect
	github.com/docker/docker v28.0.4+incompatible // indirect
	github.com/docker/go-connections v0.5.0 // indirect
	github.com/docker/go-units v0.5.0 // indirect
	github.com/emicklei/go-restful/v3 v3.12.2 // indirect
	github.com/felixge/httpsnoop v1.0.4 // indirect
	github.com/fxamacker/cbor/v2 v2.8.0 // indirect
	github.com/go-logr/logr v1.4.2 // indirect
	github.com/go-logr/stdr v1.2.2 // indirect
	github.com/go-openapi/jsonpointer v0.21.1 // indirect
	github.com/go-openapi/jsonreference v0.21.0 // indirect
	github.com/go-openapi/swag v0.23.1 // indirect
	github.com/gogo/protobuf v1.3.2 // indirect
	github.com/golang/protobuf v1.5.4 // indirect
	github.com/google/gnostic-models v0.6.9 // indirect
	github.com/google/go-cmp v0.7.0 // indirect
	github.com/google/gofuzz v1.2.0 // indirect
	github.com/google/uuid v1.6.0 // indirect
	github.com/gorilla/websocket v1.5.3 // indirect
	github.com/josharian/intern v1.0.0 // indirect
	github.com/json-iterator/go v1.1.12 // indirect
	github.com/mailru/easyjson v0.9.0 // indirect
	github.com/moby/docker-image-spec v1.3.1 // indirect
	github.com/moby/spdystream v0.5.0 // indirect
	github.com/modern-go/concurrent v0.0.0-20180306012644-bacd9c7ef1dd // indirect
	github.com/modern-go/reflect2 v1.0.2 // indirect
	github.com/munnerz/goautoneg v0.0.0-20191010083416-a7dc8b61c822 // indirect
	github.com/mxk/go-flowrate v0.0.0-20140419014527-cca7078d478f // indirect
	github.com/opencontainers/go-digest v1.0.0 // indirect
	github.com/opencontainers/image-spec v1.1.1 // indirect
	github.com/pkg/errors v0.9.1 // indirect
	github.com/x448/float16 v0.8.4 // indirect
	go.arcalot.io/dgraph v1.7.0 // indirect
	go.arcalot.io/exex v0.2.0 // indirect
	go.arcalot.io/lang v1.1.0 // indirect
	go.flow.arcalot.io/dockerdeployer v0.7.4 // indirect
	go.flow.arcalot.io/expressions v0.4.6 // indirect
	go.flow.arcalot.io/kubernetesdeployer v0.10.2 // indirect
	go.flow.arcalot.io/podmandeployer v0.11.5 // indirect
	go.flow.arcalot.io/pythondeployer v0.6.3 // indirect
	go.opentelemetry.io/auto/sdk v1.1.0 // indirect
	go.opentelemetry.io/contrib/instrumentation/net/http/otelhttp v0.60.0 // indirect
	go.opentelemetry.io/otel v1.35.0 // indirect
	go.opentelemetry.io/otel/metric v1.35.0 // indirect
	go.opentelemetry.io/otel/trace v1.35.0 // indirect
	golang.org/x/net v0.39.0 // indirect
	golang.org/x/oauth2 v0.29.0 // indirect
	golang.org/x/sys v0.32.0 // indirect
	golang.org/x/term v0.31.0 // indirect
	golang.org/x/text v0.24.0 // indirect
	golang.org/x/time v0.11.0 // indirect
	google.golang.org/protobuf v1.36.6 // indirect
	gopkg.in/evanphx/json-patch.v4 v4.12.0 // indirect
	gopkg.in/inf.v0 v0.9.1 // indirect
	gopkg.in/yaml.v3 v3.0.1 // indirect
	k8s.io/api v0.32.3 // indirect
	k8s.io/apimachinery v0.32.3 // indirect
	k8s.io/client-go v0.32.3 // indirect
	k8s.io/klog/v2 v2.130.1 // indirect
	k8s.io/kube-openapi v0.0.0-20250318190949-c8a335a9a2ff // indirect
	k8s.io/utils v0.0.0-20250321185631-1f6e0b77f77e // indirect
	sigs.k8s.io/json v0.0.0-20241014173422-cfa47c3a1cc8 // indirect
	sigs.k8s.io/randfill v1.0.0 // indirect
	sigs.k8s.io/structured-merge-diff/v4 v4.7.0 // indirect
	sigs.k8s.io/yaml v1.4.0 // indirect
)

replace go.flow.arcalot.io/engine => /repo
