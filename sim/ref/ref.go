// Package ref is the executable reference model (DESIGN.md §4): a small interpreter over the program
// IR that is independent of the engine's expression library and of dgraph. It predicts the natural
// outcome of every step of a fixed-meaning (S1) program, the set of producible outputs, and it can
// match observed values against the admissible values of an expression.
package ref

import (
	"fmt"
	"math"
	"sort"
	"strconv"
	"strings"

	"go.flow.arcalot.io/engine/zverif/ir"
)

// Wild matches any value (strings the engine invents: error messages).
type Wild struct{}

// Absent marks an optional field that is not present.
type Absent struct{}

// Choice is a set of admissible values.
type Choice struct{ Alts []any }

// Status of an evaluation.
type Status int

const (
	// OK: evaluated.
	OK Status = iota
	// Missing: something it needs will never be produced.
	Missing
	// Pending: something it needs is produced only if a never-finishing step finishes.
	Pending
	// EvalErr: all dependencies are there but evaluation fails at run time.
	EvalErr
)

func (s Status) String() string { return [...]string{"ok", "missing", "pending", "evalerr"}[s] }

// Res is an evaluation result.
type Res struct {
	V   any
	St  Status
	Why string
	// Maybe: the value was emitted by its producer but the engine may not have received it (it was
	// emitted while the run was already being shut down). Observed-world facts only.
	Maybe bool
}

func worst(a, b Status) Status {
	// EvalErr only matters when everything else is there
	rank := func(s Status) int { return [...]int{0, 3, 2, 1}[s] }
	if rank(b) > rank(a) {
		return b
	}
	return a
}

// StepFacts is what the model knows about one step.
type StepFacts struct {
	ID        string
	Deployed  bool           // a run deployment succeeds
	DeployTry bool           // a run deployment is attempted
	Started   bool           // plugin code is executed
	Input     map[string]any // expected plugin input (defaults filled); loops: nil
	Hangs     bool           // never finishes by itself
	Out       map[string]any // "stage.output" -> value
	Stage     map[string]bool
	Why       string
	// At is the decision number at which each "stage.output" was produced (observed facts only).
	At map[string]int64
	// Maybe marks outputs whose delivery to the engine is uncertain (observed facts only).
	Maybe map[string]bool
	// loops
	Items   []any
	ItemRes []*Facts
	Par     int64
}

// Facts is the natural outcome of a program for one input.
type Facts struct {
	P        *ir.Program
	Input    map[string]any
	Steps    map[string]*StepFacts
	RunError []string // run-time evaluation failures that are reached
	// Producible outputs and their admissible data.
	Producible map[string]any
	Pending    map[string]bool // outputs that depend on a never-finishing step
}

// NormalizeInput applies the root (or item) input schema: defaults filled, types checked.
// It returns an error for an invalid document.
func NormalizeInput(item bool, in map[string]any) (map[string]any, error) {
	out := map[string]any{}
	type fld struct {
		name     string
		kind     string
		required bool
		def      any
	}
	var fields []fld
	if item {
		fields = []fld{{"v", "int", true, nil}, {"mode", "string", false, "ok"}, {"dur", "int", false, int64(0)}, {"tag", "string", false, ""}, {"pat", "string", false, nil}}
	} else {
		fields = []fld{{"n", "int", true, nil}, {"m", "int", false, int64(7)}, {"tag", "string", true, nil}, {"flag", "bool", true, nil},
			{"opt", "string", false, nil}, {"zero", "int", false, int64(0)}, {"items", "items", false, nil}, {"nested", "nested", false, nil},
			{"ports", "intmap", false, nil}}
	}
	known := map[string]bool{}
	for _, f := range fields {
		known[f.name] = true
		v, ok := in[f.name]
		if ok && v == nil {
			// a key that is present with a null value is not an absent key: the schema refuses it
			return nil, fmt.Errorf("field %s: null cannot be converted", f.name)
		}
		if !ok {
			if f.required {
				return nil, fmt.Errorf("missing required field %s", f.name)
			}
			if f.def != nil {
				out[f.name] = f.def
			}
			continue
		}
		switch f.kind {
		case "int":
			i, err := toInt(v)
			if err != nil {
				return nil, fmt.Errorf("field %s: %w", f.name, err)
			}
			out[f.name] = i
		case "string":
			s, err := toStr(v)
			if err != nil {
				return nil, fmt.Errorf("field %s: %w", f.name, err)
			}
			out[f.name] = s
		case "bool":
			b, err := toBool(v)
			if err != nil {
				return nil, fmt.Errorf("field %s: %w", f.name, err)
			}
			out[f.name] = b
		case "intmap":
			// a map with integer keys and string values; the model keeps the keys in decimal notation
			m, ok := v.(map[string]any)
			if !ok {
				return nil, fmt.Errorf("field %s: not a map", f.name)
			}
			res := map[string]any{}
			for k, x := range m {
				ki, err := toInt(k)
				if err != nil {
					return nil, fmt.Errorf("field %s: key %q: %w", f.name, k, err)
				}
				xs, err := toStr(x)
				if err != nil {
					return nil, fmt.Errorf("field %s[%s]: %w", f.name, k, err)
				}
				res[fmt.Sprint(ki)] = xs
			}
			out[f.name] = res
		case "items":
			l, ok := v.([]any)
			if !ok {
				return nil, fmt.Errorf("field items: not a list")
			}
			res := make([]any, len(l))
			for i, it := range l {
				m, ok := it.(map[string]any)
				if !ok {
					return nil, fmt.Errorf("items[%d]: not an object", i)
				}
				n, err := NormalizeInput(true, m)
				if err != nil {
					return nil, fmt.Errorf("items[%d]: %w", i, err)
				}
				res[i] = n
			}
			out[f.name] = res
		case "nested":
			m, ok := v.(map[string]any)
			if !ok {
				return nil, fmt.Errorf("field nested: not an object")
			}
			n := map[string]any{}
			x, ok := m["x"]
			if !ok {
				return nil, fmt.Errorf("nested.x missing")
			}
			xi, err := toInt(x)
			if err != nil {
				return nil, err
			}
			n["x"] = xi
			if y, ok := m["y"]; ok && y == nil {
				return nil, fmt.Errorf("nested.y: null cannot be converted")
			} else if ok {
				ys, err := toStr(y)
				if err != nil {
					return nil, err
				}
				n["y"] = ys
			} else {
				n["y"] = "dflt"
			}
			for k := range m {
				if k != "x" && k != "y" {
					return nil, fmt.Errorf("nested: unknown key %s", k)
				}
			}
			out[f.name] = n
		}
	}
	for k := range in {
		if !known[k] {
			return nil, fmt.Errorf("unknown key %s", k)
		}
	}
	return out, nil
}

func toInt(v any) (int64, error) {
	switch x := v.(type) {
	case int:
		return int64(x), nil
	case int64:
		return x, nil
	case float64:
		if x == math.Trunc(x) {
			return int64(x), nil
		}
		return 0, fmt.Errorf("not an integer: %v", x)
	case string:
		i, err := strconv.ParseInt(x, 10, 64)
		if err != nil {
			return 0, fmt.Errorf("not an integer: %q", x)
		}
		return i, nil
	}
	return 0, fmt.Errorf("not an integer: %T", v)
}

func toStr(v any) (string, error) {
	switch x := v.(type) {
	case string:
		return x, nil
	case int64:
		return strconv.FormatInt(x, 10), nil
	case int:
		return strconv.Itoa(x), nil
	case bool:
		return strconv.FormatBool(x), nil
	case float64:
		return strconv.FormatFloat(x, 'f', -1, 64), nil
	}
	return "", fmt.Errorf("not a string: %T", v)
}

// ToBool is the bool schema's conversion.
func ToBool(v any) (bool, error) { return toBool(v) }

func toBool(v any) (bool, error) {
	switch x := v.(type) {
	case bool:
		return x, nil
	case int64:
		if x == 0 || x == 1 {
			return x == 1, nil
		}
	case string:
		switch strings.ToLower(x) {
		case "true", "yes", "y", "on", "enable", "enabled", "1":
			return true, nil
		case "false", "no", "n", "off", "disable", "disabled", "0":
			return false, nil
		}
	}
	return false, fmt.Errorf("not a bool: %v", v)
}

func isWild(v any) bool { _, ok := v.(Wild); return ok }

func isChoice(v any) bool { _, ok := v.(Choice); return ok }

// Eval evaluates an expression over the facts known so far.
func (f *Facts) Eval(e *ir.Expr) Res {
	switch e.K {
	case "lit":
		return Res{V: normLit(e.V)}
	case "ref":
		return f.evalRef(e.Path)
	case "op":
		a, b := f.Eval(e.Args[0]), f.Eval(e.Args[1])
		if st := worst(a.St, b.St); st != OK {
			return Res{St: st, Why: a.Why + b.Why}
		}
		r := evalOp(e.Op, a.V, b.V)
		r.Maybe = a.Maybe || b.Maybe
		return r
	case "call":
		var args []any
		st := OK
		why := ""
		maybe := false
		for _, x := range e.Args {
			r := f.Eval(x)
			st = worst(st, r.St)
			why += r.Why
			maybe = maybe || r.Maybe
			args = append(args, r.V)
		}
		if st != OK {
			return Res{St: st, Why: why}
		}
		r := evalCall(e.Op, args)
		r.Maybe = maybe
		return r
	case "obj":
		out := map[string]any{}
		st := OK
		why := ""
		var choiceKeys []string
		maybe := false
		for _, fl := range e.Fields {
			r := f.Eval(fl.E)
			maybe = maybe || r.Maybe
			if r.St != OK {
				st = worst(st, r.St)
				why += fl.Name + ":" + r.Why + ";"
				continue
			}
			if _, abs := r.V.(Absent); abs {
				continue
			}
			if _, ch := r.V.(Choice); ch {
				choiceKeys = append(choiceKeys, fl.Name)
			}
			out[fl.Name] = r.V
		}
		if st != OK {
			return Res{St: st, Why: why}
		}
		return Res{V: out, Maybe: maybe}
	case "list":
		out := make([]any, 0, len(e.Items))
		st := OK
		why := ""
		open := false
		for _, it := range e.Items {
			r := f.Eval(it)
			st = worst(st, r.St)
			why += r.Why
			if it.K == "opt" && it.Tag != "ordisabled" {
				// an optional item that is absent is left out of the list
				if _, absent := r.V.(Absent); absent {
					continue
				}
				if c, isC := r.V.(Choice); isC {
					for _, a := range c.Alts {
						if _, absent := a.(Absent); absent {
							open = true // present or not: the length is not fixed
						}
					}
				}
			}
			out = append(out, r.V)
		}
		if st != OK {
			return Res{St: st, Why: why}
		}
		if open {
			return Res{V: Wild{}}
		}
		return Res{V: out}
	case "oneof":
		var alts []any
		var altSrc []*ir.Expr // the option expression of each alternative
		var sure []bool       // produced for certain (not merely possibly)
		pending := false
		why := ""
		for _, o := range e.Opts {
			r := f.Eval(o.E)
			switch r.St {
			case OK:
				m, ok := r.V.(map[string]any)
				if !ok {
					return Res{St: EvalErr, Why: "oneof option is not an object"}
				}
				c := map[string]any{}
				for k, v := range m {
					c[k] = v
				}
				c[e.Disc] = o.Name
				alts = append(alts, c)
				altSrc = append(altSrc, o.E)
				sure = append(sure, !r.Maybe)
			case Pending:
				pending = true
			case EvalErr:
				return r
			default:
				why += r.Why
			}
		}
		if len(alts) == 0 {
			if pending {
				return Res{St: Pending, Why: "oneof: " + why}
			}
			return Res{St: Missing, Why: "oneof: no option produced: " + why}
		}
		// The value is the option that was produced first. Where the workflow itself orders two options -
		// the source step of one cannot start before the other's source has been produced - the later
		// one is not admissible.
		var first []any
		for i := range alts {
			later := false
			for j := range alts {
				if i != j && sure[j] && producedBefore(f.P, altSrc[j], altSrc[i]) {
					later = true
				}
			}
			if !later {
				first = append(first, alts[i])
			}
		}
		if len(first) > 0 {
			alts = first
		}
		if len(alts) == 1 {
			return Res{V: alts[0]}
		}
		return Res{V: Choice{alts}}
	case "opt":
		inner := e.Args[0]
		switch e.Tag {
		case "wait-optional":
			r := f.Eval(inner)
			switch r.St {
			case OK:
				if r.Maybe {
					return Res{V: Choice{[]any{r.V, Absent{}}}}
				}
				return r
			case Missing:
				return Res{V: Absent{}}
			default:
				return r
			}
		case "soft-optional":
			r := f.Eval(inner)
			switch r.St {
			case OK:
				return Res{V: Choice{[]any{r.V, Absent{}}}}
			case EvalErr:
				return Res{V: Choice{[]any{Absent{}}}, St: OK}
			default:
				return Res{V: Absent{}}
			}
		case "ordisabled":
			// oneof{enabled: expr, disabled: $.steps.X.disabled.output} with discriminator "result"
			if len(inner.Path) < 2 {
				return Res{St: EvalErr, Why: "ordisabled needs a step path"}
			}
			oo := ir.OneOf("result", ir.F("enabled", inner), ir.F("disabled", ir.StepRef(inner.Path[1].(string), "disabled", "output")))
			return f.Eval(oo)
		}
	}
	return Res{St: EvalErr, Why: "unknown expression kind " + e.K}
}

func normLit(v any) any {
	switch x := v.(type) {
	case int:
		return int64(x)
	case float64:
		if x == math.Trunc(x) {
			return int64(x)
		}
		return x
	case []any:
		out := make([]any, len(x))
		for i := range x {
			out[i] = normLit(x[i])
		}
		return out
	case map[string]any:
		out := map[string]any{}
		for k, y := range x {
			out[k] = normLit(y)
		}
		return out
	}
	return v
}

func (f *Facts) evalRef(path []any) Res {
	if len(path) == 0 {
		return Res{St: EvalErr, Why: "empty path"}
	}
	var cur any
	maybe := false
	rest := path[1:]
	switch path[0] {
	case "input":
		cur = f.Input
	case "steps":
		if len(path) < 3 {
			return Res{St: EvalErr, Why: "short step path"}
		}
		id, stage := path[1].(string), path[2].(string)
		sf := f.Steps[id]
		if sf == nil {
			return Res{St: Missing, Why: "step " + id + " not evaluated;"}
		}
		if len(path) == 3 {
			// stage-level reference: the map of whatever output the stage produced
			m := map[string]any{}
			for k, v := range sf.Out {
				if strings.HasPrefix(k, stage+".") {
					m[strings.TrimPrefix(k, stage+".")] = v
				}
			}
			if len(m) == 0 {
				if sf.Hangs || sf.pendingStage(stage) {
					return Res{St: Pending, Why: id + "." + stage + " pending;"}
				}
				return Res{St: Missing, Why: id + "." + stage + " not produced;"}
			}
			for k := range m {
				if sf.Maybe[stage+"."+k] {
					maybe = true
				}
			}
			return Res{V: m, Maybe: maybe}
		}
		out := path[3].(string)
		maybe = sf.Maybe[stage+"."+out]
		v, ok := sf.Out[stage+"."+out]
		if !ok {
			if sf.pendingStage(stage) {
				return Res{St: Pending, Why: id + "." + stage + "." + out + " pending;"}
			}
			return Res{St: Missing, Why: id + "." + stage + "." + out + " not produced;"}
		}
		cur = v
		rest = path[4:]
	default:
		return Res{St: EvalErr, Why: "bad root"}
	}
	for _, p := range rest {
		if isWild(cur) {
			return Res{V: Wild{}, Maybe: maybe}
		}
		switch k := p.(type) {
		case string:
			m, ok := cur.(map[string]any)
			if !ok {
				return Res{St: EvalErr, Why: fmt.Sprintf("cannot take field %s of %T;", k, cur)}
			}
			v, ok := m[k]
			if !ok {
				return Res{St: EvalErr, Why: "map key " + k + " not found;"}
			}
			cur = v
		default:
			i, err := toInt(p)
			if err != nil {
				return Res{St: EvalErr, Why: "bad index;"}
			}
			if m, isMap := cur.(map[string]any); isMap {
				// an integer-keyed map of the input (keys kept in decimal notation)
				v, ok := m[fmt.Sprint(i)]
				if !ok {
					return Res{St: EvalErr, Why: "map key not found;"}
				}
				cur = v
				continue
			}
			l, ok := cur.([]any)
			if !ok {
				return Res{St: EvalErr, Why: "index on non-list;"}
			}
			n := int64(len(l))
			if i >= n || i < -n {
				return Res{St: EvalErr, Why: "index out of range;"}
			}
			if i < 0 {
				i += n
			}
			cur = l[i]
		}
	}
	return Res{V: cur, Maybe: maybe}
}

func (sf *StepFacts) pendingStage(stage string) bool {
	if !sf.Hangs {
		// A step that never starts (what it needs is never produced) and has not ended any other way
		// sits waiting until the run is torn down, and is closed then: its closed.result is not ruled
		// out, it is produced exactly when nothing else ends the run first.
		if stage == "closed" {
			ended := false
			for k := range sf.Out {
				if strings.HasPrefix(k, "outputs.") || strings.HasPrefix(k, "crashed.") || strings.HasPrefix(k, "deploy_failed.") ||
					strings.HasPrefix(k, "disabled.") || strings.HasPrefix(k, "failed.") {
					ended = true
				}
			}
			return !ended
		}
		return false
	}
	// a step that hangs while running could still finish, crash or be closed
	switch stage {
	case "outputs", "crashed", "closed":
		return true
	}
	return false
}

func evalOp(op string, a, b any) Res {
	if isWild(a) || isWild(b) || isChoice(a) || isChoice(b) {
		return Res{V: Wild{}} // a set of admissible operands: the result is not enumerated
	}
	switch x := a.(type) {
	case int64:
		y, ok := b.(int64)
		if !ok {
			return Res{St: EvalErr, Why: "type mismatch;"}
		}
		switch op {
		case "+":
			return Res{V: x + y}
		case "-":
			return Res{V: x - y}
		case "*":
			return Res{V: x * y}
		case "/":
			if y == 0 {
				return Res{St: EvalErr, Why: "division by zero;"}
			}
			return Res{V: x / y}
		case "%":
			if y == 0 {
				return Res{St: EvalErr, Why: "modulus by zero;"}
			}
			return Res{V: x % y}
		case "==":
			return Res{V: x == y}
		case "!=":
			return Res{V: x != y}
		case ">":
			return Res{V: x > y}
		case "<":
			return Res{V: x < y}
		case ">=":
			return Res{V: x >= y}
		case "<=":
			return Res{V: x <= y}
		}
	case string:
		y, ok := b.(string)
		if !ok {
			return Res{St: EvalErr, Why: "type mismatch;"}
		}
		switch op {
		case "+":
			return Res{V: x + y}
		case "==":
			return Res{V: x == y}
		case "!=":
			return Res{V: x != y}
		}
	case bool:
		y, ok := b.(bool)
		if !ok {
			return Res{St: EvalErr, Why: "type mismatch;"}
		}
		switch op {
		case "==":
			return Res{V: x == y}
		case "!=":
			return Res{V: x != y}
		case "&&":
			return Res{V: x && y}
		case "||":
			return Res{V: x || y}
		}
	}
	return Res{St: EvalErr, Why: "unsupported operation " + op + ";"}
}

func evalCall(fn string, args []any) Res {
	for _, a := range args {
		if isWild(a) || isChoice(a) {
			return Res{V: Wild{}}
		}
	}
	switch fn {
	case "intToString":
		return Res{V: strconv.FormatInt(args[0].(int64), 10)}
	case "stringToInt":
		s := args[0].(string)
		// the documented law: a decimal integer, optional sign; anything else is an error
		i, err := strconv.ParseInt(s, 10, 64)
		if err != nil || strings.HasPrefix(s, "+") {
			return Res{St: EvalErr, Why: "stringToInt(" + s + ") fails;"}
		}
		return Res{V: i}
	case "toUpper":
		return Res{V: strings.ToUpper(args[0].(string))}
	case "toLower":
		return Res{V: strings.ToLower(args[0].(string))}
	case "intToFloat":
		return Res{V: float64(args[0].(int64))}
	case "floatToInt":
		fl, ok := args[0].(float64)
		if !ok {
			return Res{St: EvalErr, Why: "floatToInt on non-float;"}
		}
		return Res{V: int64(fl)}
	case "boolToString":
		return Res{V: strconv.FormatBool(args[0].(bool))}
	case "floatToFormattedString":
		fl, ok := args[0].(float64)
		f, ok2 := args[1].(string)
		prec, ok3 := args[2].(int64)
		if !ok || !ok2 || !ok3 || len(f) != 1 {
			return Res{St: EvalErr, Why: "floatToFormattedString: bad arguments;"}
		}
		// "converts a floating point number to a string according to the specified formatting directive
		// and precision" (strconv.FormatFloat)
		return Res{V: strconv.FormatFloat(fl, f[0], int(prec), 64)}
	case "floatToString":
		fl, ok := args[0].(float64)
		if !ok {
			return Res{St: EvalErr, Why: "floatToString on non-float;"}
		}
		// "the base-10 representation of the provided floating point value formatted without an exponent"
		return Res{V: strconv.FormatFloat(fl, 'f', -1, 64)}
	}
	return Res{St: EvalErr, Why: "unknown function " + fn + ";"}
}

// SuccessOf is the scripted plugin's success output for an input (mirrors world.Compute; kept here so
// the model does not import the world).
func SuccessOf(src string, in map[string]any) map[string]any {
	out := map[string]any{}
	a := in["a"]
	if isWild(a) || isChoice(a) {
		out["a"] = Wild{}
		out["its"] = Wild{}
	} else {
		out["a"] = a.(int64)*2 + 1
		out["its"] = []any{map[string]any{"v": a.(int64)}, map[string]any{"v": a.(int64) + 1}}
	}
	s := in["s"]
	if isWild(s) || isWild(in["o"]) || isChoice(s) {
		out["s"] = Wild{}
	} else if ch, ok := in["o"].(Choice); ok {
		var alts []any
		for _, a := range ch.Alts {
			switch x := a.(type) {
			case Absent:
				alts = append(alts, "<"+s.(string)+">")
			case string:
				alts = append(alts, "<"+s.(string)+">+"+x)
			default:
				alts = append(alts, Wild{})
			}
		}
		out["s"] = Choice{alts}
	} else {
		str := "<" + s.(string) + ">"
		if o, ok := in["o"]; ok && o != nil {
			str += "+" + o.(string)
		}
		out["s"] = str
	}
	if l, ok := in["l"]; ok && l != nil {
		if isWild(l) {
			out["l"] = Wild{}
		} else {
			var res []any
			for _, x := range l.([]any) {
				res = append(res, x.(int64)+1)
			}
			if res == nil {
				res = []any{}
			}
			out["l"] = res
		}
	} else {
		out["l"] = []any{} // the plugin always returns the list, empty when it got none
	}
	out["nonce"] = Wild{} // checked separately through provenance (see oracle)
	return out
}

// Natural computes the natural outcome of a fixed-meaning program.
func Natural(p *ir.Program, input map[string]any) *Facts {
	f := &Facts{P: p, Input: input, Steps: map[string]*StepFacts{}, Producible: map[string]any{}, Pending: map[string]bool{}}
	// Two passes: a stop condition may refer to a step that is listed later (the stopper of a hanging
	// step), whose outcome is only known after the first pass.
	for pass := 0; pass < 2; pass++ {
		f.RunError = nil
		for _, s := range p.Steps {
			sf := &StepFacts{ID: s.ID, Out: map[string]any{}, Stage: map[string]bool{}}
			f.Steps[s.ID] = sf
			if s.Kind == "foreach" {
				f.naturalLoop(s, sf)
			} else {
				f.naturalPlugin(s, sf)
			}
		}
	}
	for _, o := range p.Outputs {
		r := f.Eval(o.E)
		switch r.St {
		case OK:
			f.Producible[o.ID] = r.V
		case Pending:
			f.Pending[o.ID] = true
		case EvalErr:
			f.RunError = append(f.RunError, "output "+o.ID+": "+r.Why)
		}
	}
	return f
}

func (f *Facts) fail(why string) { f.RunError = append(f.RunError, why) }

func (f *Facts) naturalPlugin(s *ir.Step, sf *StepFacts) {
	// deploy stage
	mode, lat := "ok", int64(0)
	if s.Deploy != nil {
		if s.Deploy.Mode != nil {
			r := f.Eval(s.Deploy.Mode)
			if r.St != OK {
				if r.St == EvalErr {
					f.fail(s.ID + ".deploy: " + r.Why)
				}
				sf.Why = "deploy input: " + r.Why
				sf.Hangs = r.St == Pending
				return
			}
			mode, _ = r.V.(string)
		}
		if s.Deploy.Latency != nil {
			r := f.Eval(s.Deploy.Latency)
			if r.St != OK {
				if r.St == EvalErr {
					f.fail(s.ID + ".deploy: " + r.Why)
				}
				sf.Why = "deploy input: " + r.Why
				sf.Hangs = r.St == Pending
				return
			}
			lat, _ = r.V.(int64)
		}
	}
	_ = lat
	sf.DeployTry = true
	switch mode {
	case "fail":
		sf.Out["deploy_failed.error"] = map[string]any{"error": Wild{}}
		sf.Why = "deployment fails"
		return
	case "hang":
		sf.Why = "deployment hangs"
		sf.Hangs = true
		return
	}
	sf.Deployed = true
	// enabling stage
	enabled := true
	if s.Enabled != nil {
		r := f.Eval(s.Enabled)
		if r.St != OK {
			if r.St == EvalErr {
				f.fail(s.ID + ".enabled: " + r.Why)
			}
			sf.Why = "enabled: " + r.Why
			return
		}
		b, err := toBool(r.V)
		if err != nil {
			f.fail(s.ID + ".enabled: not a bool")
			return
		}
		enabled = b
	}
	sf.Out["enabling.resolved"] = map[string]any{"enabled": enabled}
	if !enabled {
		sf.Out["disabled.output"] = map[string]any{"message": Wild{}}
		sf.Why = "disabled"
		return
	}
	// starting stage
	in := f.Eval(ir.Obj(s.In...))
	st := in.St
	why := in.Why
	if s.WaitFor != nil {
		w := f.Eval(s.WaitFor)
		st = worst(st, w.St)
		why += w.Why
	}
	if st != OK {
		if st == EvalErr {
			f.fail(s.ID + ".input: " + why)
		}
		sf.Why = "input: " + why
		return
	}
	input := in.V.(map[string]any)
	full, err := PluginDefaults(input)
	if err != nil {
		f.fail(s.ID + ".input: " + err.Error())
		return
	}
	sf.Started = true
	sf.Input = full
	sf.Out["starting.started"] = map[string]any{}
	m, _ := full["mode"].(string)
	switch m {
	case "ok":
		sf.Out["outputs.success"] = SuccessOf(f.P.Src(s.ID), full)
	case "err":
		sf.Out["outputs.error"] = map[string]any{"reason": Wild{}}
	case "alt":
		sf.Out["outputs.alt"] = map[string]any{"a": full["a"]}
	case "crash", "panic", "badout":
		sf.Out["crashed.error"] = map[string]any{"output": Wild{}}
	case "hang":
		sf.Hangs = true
		// a stop condition whose source is produced ends it
		if s.StopIf != nil {
			r := f.Eval(s.StopIf)
			if r.St == OK && r.V != false && !literalFalse(s.StopIf) {
				sf.Hangs = false
				oc, _ := full["on_cancel"].(string)
				switch {
				case s.NoSignal:
					sf.Out["crashed.error"] = map[string]any{"output": Wild{}}
				case oc == "finish":
					sf.Out["outputs.cancelled"] = map[string]any{"msg": "cancelled by signal"}
				default:
					sf.Out["crashed.error"] = map[string]any{"output": Wild{}}
				}
			}
		}
	default:
		sf.Out["outputs.success"] = SuccessOf(f.P.Src(s.ID), full)
	}
}

// PluginDefaults fills the scripted plugin's input defaults and checks types.
func PluginDefaults(in map[string]any) (map[string]any, error) {
	out := map[string]any{}
	get := func(k string) (any, bool) { v, ok := in[k]; return v, ok && v != nil }
	if v, ok := get("a"); ok {
		if isWild(v) || isChoice(v) {
			out["a"] = v
		} else {
			i, err := toInt(v)
			if err != nil {
				return nil, err
			}
			out["a"] = i
		}
	} else {
		return nil, fmt.Errorf("a is required")
	}
	str := func(k, def string) error {
		if v, ok := get(k); ok {
			if isWild(v) || isChoice(v) {
				out[k] = v
				return nil
			}
			s, err := toStr(v)
			if err != nil {
				return err
			}
			out[k] = s
		} else {
			out[k] = def
		}
		return nil
	}
	if err := str("s", ""); err != nil {
		return nil, err
	}
	if err := str("mode", "ok"); err != nil {
		return nil, err
	}
	if err := str("on_cancel", "finish"); err != nil {
		return nil, err
	}
	if v, ok := get("dur"); ok {
		i, err := toInt(v)
		if err != nil {
			return nil, err
		}
		out["dur"] = i
	} else {
		out["dur"] = int64(0)
	}
	if v, ok := get("o"); ok {
		if _, abs := v.(Absent); abs {
			// optional and not present
		} else if isWild(v) || isChoice(v) {
			out["o"] = v
		} else {
			s, err := toStr(v)
			if err != nil {
				return nil, err
			}
			out["o"] = s
		}
	}
	if v, ok := get("l"); ok {
		if isWild(v) || isChoice(v) {
			out["l"] = v
		} else {
			l, ok := v.([]any)
			if !ok {
				return nil, fmt.Errorf("l is not a list")
			}
			res := make([]any, len(l))
			for i, x := range l {
				xi, err := toInt(x)
				if err != nil {
					return nil, err
				}
				res[i] = xi
			}
			out["l"] = res
		}
	}
	return out, nil
}

func (f *Facts) naturalLoop(s *ir.Step, sf *StepFacts) {
	enabled := true
	if s.Enabled != nil {
		r := f.Eval(s.Enabled)
		if r.St != OK {
			if r.St == EvalErr {
				f.fail(s.ID + ".enabled: " + r.Why)
			}
			sf.Why = "enabled: " + r.Why
			return
		}
		enabled, _ = r.V.(bool)
	}
	sf.Out["enabling.resolved"] = map[string]any{"enabled": enabled}
	if !enabled {
		sf.Out["disabled.output"] = map[string]any{"message": Wild{}}
		return
	}
	it := f.Eval(s.Items)
	st, why := it.St, it.Why
	par := int64(1)
	if s.Parallelism != nil {
		r := f.Eval(s.Parallelism)
		st = worst(st, r.St)
		why += r.Why
		if r.St == OK {
			par, _ = r.V.(int64)
		}
	}
	if s.WaitFor != nil {
		w := f.Eval(s.WaitFor)
		st = worst(st, w.St)
		why += w.Why
	}
	if st != OK {
		if st == EvalErr {
			f.fail(s.ID + ".items: " + why)
		}
		sf.Why = "items: " + why
		return
	}
	if isWild(it.V) || isChoice(it.V) {
		// the items are not a single known list: the loop runs, its result is not enumerated
		sf.Started = true
		sf.Par = par
		sf.Out["outputs.success"] = map[string]any{"data": Wild{}}
		sf.Maybe = map[string]bool{"outputs.success": true}
		return
	}
	if _, absent := it.V.(Absent); absent {
		// an optional items expression without a value: the required input of the stage is missing
		f.fail(s.ID + ".items: absent;")
		sf.Why = "items: absent"
		return
	}
	items, _ := it.V.([]any)
	sub := f.P.Subs[s.Sub]
	sf.Started = true
	sf.Items = items
	sf.Par = par
	data := make([]any, len(items))
	okData := map[string]any{}
	errs := map[string]any{}
	for i, item := range items {
		m, _ := item.(map[string]any)
		norm, err := NormalizeInput(true, m)
		if err != nil {
			f.fail(fmt.Sprintf("%s.items[%d]: %v", s.ID, i, err))
			return
		}
		r := Natural(sub, norm)
		sf.ItemRes = append(sf.ItemRes, r)
		if len(r.Pending) > 0 && len(r.Producible) == 0 {
			sf.Hangs = true
		}
		if v, ok := r.Producible["success"]; ok && len(r.RunError) == 0 && len(r.Producible) == 1 {
			data[i] = v
			okData[strconv.Itoa(i)] = v
		} else {
			errs[strconv.Itoa(i)] = Wild{}
		}
	}
	if sf.Hangs {
		return
	}
	if len(errs) == 0 {
		sf.Out["outputs.success"] = map[string]any{"data": data}
	} else {
		sf.Out["failed.error"] = map[string]any{"data": okData, "errors": errs}
	}
}

// ---------------------------------------------------------------------------------------------
// matching observed values

// Match reports whether the observed (canonical JSON-like) value is admissible for want.
func Match(want, got any) error {
	switch w := want.(type) {
	case Wild:
		return nil
	case Absent:
		if got == nil {
			return nil
		}
		return fmt.Errorf("expected absent, got %v", got)
	case Choice:
		var errs []string
		for _, a := range w.Alts {
			if err := Match(a, got); err == nil {
				return nil
			} else {
				errs = append(errs, err.Error())
			}
		}
		return fmt.Errorf("no alternative matches: %s", strings.Join(errs, " | "))
	case map[string]any:
		g, ok := got.(map[string]any)
		if !ok {
			return fmt.Errorf("expected object, got %T (%v)", got, got)
		}
		for k, wv := range w {
			gv, present := g[k]
			if !present {
				if admitsAbsent(wv) {
					continue
				}
				return fmt.Errorf("missing key %q", k)
			}
			if err := Match(wv, gv); err != nil {
				return fmt.Errorf("%s: %w", k, err)
			}
		}
		for k := range g {
			if _, ok := w[k]; !ok {
				return fmt.Errorf("unexpected key %q", k)
			}
		}
		return nil
	case []any:
		g, ok := got.([]any)
		if !ok {
			if got == nil && len(w) == 0 {
				return nil
			}
			return fmt.Errorf("expected list, got %T (%v)", got, got)
		}
		if len(g) != len(w) {
			return fmt.Errorf("list length %d, expected %d", len(g), len(w))
		}
		for i := range w {
			if err := Match(w[i], g[i]); err != nil {
				return fmt.Errorf("[%d]: %w", i, err)
			}
		}
		return nil
	case int64:
		switch g := got.(type) {
		case int64:
			if g == w {
				return nil
			}
		case float64:
			if g == float64(w) {
				return nil
			}
		case int:
			if int64(g) == w {
				return nil
			}
		}
		return fmt.Errorf("expected %d, got %v (%T)", w, got, got)
	case float64:
		switch g := got.(type) {
		case float64:
			if g == w {
				return nil
			}
		case int64:
			if float64(g) == w {
				return nil
			}
		}
		return fmt.Errorf("expected %v, got %v", w, got)
	case string:
		if g, ok := got.(string); ok && g == w {
			return nil
		}
		return fmt.Errorf("expected %q, got %v (%T)", w, got, got)
	case bool:
		if g, ok := got.(bool); ok && g == w {
			return nil
		}
		return fmt.Errorf("expected %v, got %v (%T)", w, got, got)
	case nil:
		if got == nil {
			return nil
		}
		return fmt.Errorf("expected null, got %v", got)
	}
	return fmt.Errorf("model value of unknown type %T", want)
}

func admitsAbsent(w any) bool {
	switch x := w.(type) {
	case Absent:
		return true
	case Choice:
		for _, a := range x.Alts {
			if admitsAbsent(a) {
				return true
			}
		}
	}
	return false
}

// ProducibleIDs returns the sorted ids of producible outputs.
func (f *Facts) ProducibleIDs() []string {
	out := make([]string, 0, len(f.Producible))
	for k := range f.Producible {
		out = append(out, k)
	}
	sort.Strings(out)
	return out
}

// MayRun returns the ids of the plugin steps whose code may execute.
func (f *Facts) MayRun() map[string]bool {
	out := map[string]bool{}
	for id, sf := range f.Steps {
		if sf.Started {
			out[id] = true
		}
	}
	return out
}

// SortedKeys returns the sorted keys of a map.
func SortedKeys[V any](m map[string]V) []string {
	out := make([]string, 0, len(m))
	for k := range m {
		out = append(out, k)
	}
	sort.Strings(out)
	return out
}

// literalFalse: a stop condition written as a YAML scalar that the bool schema reads as false never fires.
func literalFalse(e *ir.Expr) bool {
	if e == nil || e.K != "lit" {
		return false
	}
	str, ok := e.V.(string)
	if !ok {
		return false
	}
	switch strings.ToLower(str) {
	case "false", "no", "off", "n", "0", "disable", "disabled":
		return true
	}
	return false
}

// producedBefore reports whether what the reference a names is necessarily produced before what b
// names: both refer to an output of a step, and b's step cannot start before a's output exists (a
// chain of hard references through input, items, wait_for, enabled and deploy expressions).
func producedBefore(p *ir.Program, a, b *ir.Expr) bool {
	if a == nil || b == nil || a.K != "ref" || b.K != "ref" || len(a.Path) < 4 || len(b.Path) < 3 {
		return false
	}
	if a.Path[0] != "steps" || b.Path[0] != "steps" {
		return false
	}
	want3 := fmt.Sprint(a.Path[1]) + "." + fmt.Sprint(a.Path[2])
	want4 := want3 + "." + fmt.Sprint(a.Path[3])
	seen := map[string]bool{}
	var gated func(id string) bool
	gated = func(id string) bool {
		if seen[id] {
			return false
		}
		seen[id] = true
		st := p.Step(id)
		if st == nil {
			return false
		}
		found := false
		for name, e := range st.Exprs() {
			if name == "stop_if" || e == nil {
				continue // a stop condition does not hold up the start
			}
			var walk func(x *ir.Expr)
			walk = func(x *ir.Expr) {
				if x == nil || found || x.K == "opt" || x.K == "oneof" {
					return
				}
				if x.K == "ref" && len(x.Path) >= 3 && x.Path[0] == "steps" {
					k3 := fmt.Sprint(x.Path[1]) + "." + fmt.Sprint(x.Path[2])
					if k3 == want3 && (len(x.Path) == 3 || k3+"."+fmt.Sprint(x.Path[3]) == want4) {
						found = true
						return
					}
					// through a step that ran: what it needed to start came before its own output
					if x.Path[2] == "outputs" && gated(fmt.Sprint(x.Path[1])) {
						found = true
						return
					}
				}
				for _, y := range x.Args {
					walk(y)
				}
				for _, y := range x.Items {
					walk(y)
				}
				for _, fl := range x.Fields {
					walk(fl.E)
				}
				for _, o := range x.Opts {
					walk(o.E)
				}
			}
			walk(e)
		}
		return found
	}
	if fmt.Sprint(b.Path[2]) != "outputs" {
		return false // only a step that ran is known to have had its start conditions met
	}
	return gated(fmt.Sprint(b.Path[1]))
}
