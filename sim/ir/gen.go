package ir

import (
	"fmt"
	"strings"

	"pgregory.net/rapid"
)

// Profile steers program generation (swarm knobs; every property has its own profiles).
type Profile struct {
	Name        string
	MinSteps    int
	MaxSteps    int
	Modes       []string // non-ok modes a step may have: err, alt, crash, panic, badout
	PBad        int      // percent of steps with a non-ok mode
	PDeployFail int      // percent of steps whose deployment fails
	PDeploySlow int      // percent of steps with a deployment latency
	PDisabled   int      // percent of steps with an `enabled` expression
	PWaitFor    int      // percent of steps with wait_for
	PErrPathRef int      // percent chance that a reference goes to an error-path output of the producer
	PNoSignal   int
	Durs        []int64 // candidate durations (ms)
	EqualDur    bool    // all steps get the same duration (forces simultaneity)
	MaxOutputs  int     // 1..3
	ErrOutput   bool    // add an output fed by error paths
	HangIsland  bool    // add an unrelated never-ending step
	StopIf      bool    // add a hanging step stopped by another step's result (shape A)
	RuntimeErr  int     // percent chance of an expression that fails at run time on the output path
	Tags        bool    // use !oneof / !wait-optional / !soft-optional / !ordisabled
	Foreach     int     // percent of steps that are loops
	FanIn       int     // >0: this many steps feed one output (C01 a)
	Closure     []int64 // candidate closure_wait_timeout values
	DeepExpr    bool
	// PluginArith allows arithmetic and comparisons on integers that come out of plugins, StructRefs
	// allows references into crashed.error / deploy_failed.error. Both run into defects recorded as
	// known findings (C07/C08), so only the profiles of those properties switch them on.
	PluginArith bool
	StructRefs  bool
	// OnlyErrOutputs: every declared output is fed by error-path stages (no success output).
	OnlyErrOutputs bool
	// PDeployExpr: percent of deploy latencies taken from an earlier step's output.
	PDeployExpr int
	// IgnoreCancel: percent of steps that ignore the cancel signal (forces the closure timeout path).
	IgnoreCancel int
	// PLiteralFalse: percent of `enabled` conditions written as a literal false spelling.
	PLiteralFalse int
	// PStopFalse: percent of plugin steps (with a cancel signal) given a stop condition that is a literal
	// false spelling: a condition that never fires.
	PStopFalse int
	// IslandIgnoresCancel: the unrelated never-ending step of HangIsland ignores the cancel signal.
	IslandIgnoresCancel bool
	// SamePathTags: percent of steps (Tags profiles) with tagged values at the same path in two fields.
	SamePathTags int
	// ErrorPathWaits: (Tags profiles of C15) outputs may wait, with !wait-optional, for an error-path stage
	// of a step (crashed / deploy_failed / a loop's failed). Where such a step never starts the engine
	// never rules the stage out (known finding KF-C15-1), so only C15 asks for these fields.
	ErrorPathWaits bool
	// OptionalRequired: percent of steps (Tags profiles) whose required input `a` is a wait-optional.
	OptionalRequired int
	// GuardFaults: percent of enabled conditions that fail to evaluate at run time (division by zero).
	GuardFaults int
	// ItemsFromStep: percent of loops (with an earlier plugin step) that run over that step's `its`
	// output; OptionalItems: percent of those whose items expression is tagged optional.
	ItemsFromStep int
	OptionalItems int
	// ClosedOutput: add a step that waits for a slow step and an output fed by its closed.result
	// (produced when the caller cancels while it waits).
	ClosedOutput bool
	// MaxDepth: nesting depth of loops (1 = loop bodies contain no loops).
	MaxDepth int
	// StopBeforeStart: add the shape "a step is stopped (stop_if) while it still waits for what it
	// needs to start": slow producer zslow, quick stopper ystop, victim xvictim.
	StopBeforeStart bool
	// WaitOnNeverPath: percent of wait_for references that go to an error-path stage of a step that
	// never takes that path (so the waiting step can never start).
	WaitOnNeverPath int
	// SoftHang: add a never-ending step that is referenced only through !soft-optional.
	SoftHang bool
	// HeteroList: percent of programs whose first output holds a list literal of two differently shaped
	// objects (field hl).
	HeteroList int
	// PSimple: percent of plugin steps that use the two-output step `work_simple` (never with mode alt).
	PSimple int
	// StageRefs: percent of plugin steps whose whole `outputs` stage object ($.steps.x.outputs: a map
	// holding whichever output the step ended in) is returned by the first workflow output.
	StageRefs int
}

// Doc is a workflow input document.
type Doc = map[string]any

// GenDoc draws a valid input document.
func GenDoc(t *rapid.T, withItems bool, maxItems int) Doc {
	d := Doc{
		"n":    int64(rapid.IntRange(0, 9).Draw(t, "n")),
		"tag":  rapid.SampledFrom([]string{"t", "x1", "7", "Ab", "t", ""}).Draw(t, "tag"), // the empty string is a value like any other
		"flag": rapid.Bool().Draw(t, "flag"),
	}
	if rapid.IntRange(0, 3).Draw(t, "has_m") == 0 {
		d["m"] = int64(rapid.IntRange(0, 5).Draw(t, "m"))
	}
	if rapid.IntRange(0, 2).Draw(t, "has_opt") == 0 {
		d["opt"] = "o"
	}
	if withItems {
		n := rapid.IntRange(0, maxItems).Draw(t, "nitems")
		items := make([]any, n)
		for i := range items {
			items[i] = Doc{"v": int64(rapid.IntRange(0, 9).Draw(t, "item_v"))}
		}
		d["items"] = items
	}
	return d
}

type genCtx struct {
	t     *rapid.T
	prof  *Profile
	p     *Program
	doc   Doc
	prior []*Step // steps that may be referenced
	item  bool
	// shared holds sub-workflow files that several loops refer to (one instance per file name).
	shared map[string]*Program
}

func (g *genCtx) pct(p int, label string) bool {
	if p <= 0 {
		return false
	}
	if p >= 100 {
		return true
	}
	return rapid.IntRange(0, 99).Draw(g.t, label) < p
}

func (g *genCtx) pickPrior(label string) *Step {
	if len(g.prior) == 0 {
		return nil
	}
	// prefer recent steps so chains appear
	i := rapid.IntRange(0, len(g.prior)-1).Draw(g.t, label)
	return g.prior[len(g.prior)-1-i]
}

func (g *genCtx) inputInt() *Expr {
	if g.item {
		return Ref("input", "v")
	}
	return Ref("input", rapid.SampledFrom([]string{"n", "m"}).Draw(g.t, "in_int"))
}

func (g *genCtx) inputStr() *Expr {
	if g.item {
		return Ref("input", "tag")
	}
	return Ref("input", "tag")
}

func (g *genCtx) genInt(depth int) *Expr {
	k := rapid.IntRange(0, 5).Draw(g.t, "int_kind")
	switch {
	case k == 0:
		return Lit(int64(rapid.IntRange(0, 9).Draw(g.t, "int_lit")))
	case k == 1:
		return g.inputInt()
	case k <= 3:
		if s := g.pickPrior("int_src"); s != nil && s.Kind == "plugin" {
			if !s.Simple && g.pct(g.prof.PErrPathRef, "int_errpath") {
				return StepRef(s.ID, "outputs", "alt", "a")
			}
			return StepRef(s.ID, "outputs", "success", "a")
		}
		return g.inputInt()
	case k == 4 && depth < 2:
		op := rapid.SampledFrom([]string{"+", "-", "*"}).Draw(g.t, "int_op")
		if g.prof.PluginArith {
			return Op(op, g.genInt(depth+1), g.genInt(depth+1))
		}
		return Op(op, g.inputInt(), Lit(int64(rapid.IntRange(0, 9).Draw(g.t, "int_lit2"))))
	default:
		if depth < 2 && g.prof.DeepExpr {
			if g.prof.PluginArith {
				return Call("stringToInt", Call("intToString", g.genInt(depth+1)))
			}
			return Call("stringToInt", Call("intToString", g.inputInt()))
		}
		return g.inputInt()
	}
}

func (g *genCtx) genStr(depth int) *Expr {
	k := rapid.IntRange(0, 5).Draw(g.t, "str_kind")
	switch {
	case k == 0:
		return Lit(rapid.SampledFrom([]string{"a", "bc", ""}).Draw(g.t, "str_lit"))
	case k == 1:
		return g.inputStr()
	case k <= 3:
		if s := g.pickPrior("str_src"); s != nil && s.Kind == "plugin" {
			if g.pct(g.prof.PErrPathRef, "str_errpath") {
				kinds := []string{"error", "disabled"}
				if g.prof.StructRefs {
					kinds = []string{"error", "crashed", "deploy_failed", "disabled"}
				}
				which := rapid.SampledFrom(kinds).Draw(g.t, "str_errkind")
				switch which {
				case "error":
					return StepRef(s.ID, "outputs", "error", "reason")
				case "crashed":
					return StepRef(s.ID, "crashed", "error", "output")
				case "deploy_failed":
					return StepRef(s.ID, "deploy_failed", "error", "error")
				default:
					return StepRef(s.ID, "disabled", "output", "message")
				}
			}
			return StepRef(s.ID, "outputs", "success", "s")
		}
		return g.inputStr()
	case k == 4 && depth < 2:
		if len(g.prior) >= 2 && g.pct(50, "str_concat") {
			// one expression over two different producers
			a := g.prior[rapid.IntRange(0, len(g.prior)-1).Draw(g.t, "concat_a")]
			b := g.prior[rapid.IntRange(0, len(g.prior)-1).Draw(g.t, "concat_b")]
			if a != b && a.Kind == "plugin" && b.Kind == "plugin" {
				return Op("+", StepRef(a.ID, "outputs", "success", "s"), StepRef(b.ID, "outputs", "success", "s"))
			}
		}
		if g.prof.PluginArith {
			return Call("intToString", g.genInt(depth+1))
		}
		return Call("intToString", g.inputInt())
	default:
		if depth < 2 && g.prof.DeepExpr {
			return Call("toUpper", g.genStr(depth+1))
		}
		return g.inputStr()
	}
}

func (g *genCtx) genBool() *Expr {
	if !g.item && g.pct(g.prof.GuardFaults, "guard_faults") {
		// a condition that is well-typed and cannot be evaluated at run time (zero is 0 unless the input
		// says otherwise): the step it guards must not run
		return Op(">=", Op(rapid.SampledFrom([]string{"/", "%"}).Draw(g.t, "fault_op"), g.inputInt(), Ref("input", "zero")), Lit(int64(0)))
	}
	k := rapid.IntRange(0, 3).Draw(g.t, "bool_kind")
	switch k {
	case 0:
		if g.item {
			return Op("==", Ref("input", "v"), Ref("input", "v"))
		}
		return Ref("input", "flag")
	case 1:
		return Lit(rapid.Bool().Draw(g.t, "bool_lit"))
	case 2:
		if s := g.pickPrior("bool_src"); s != nil && s.Kind == "plugin" && g.prof.PluginArith {
			return Op(rapid.SampledFrom([]string{">=", "<", "=="}).Draw(g.t, "cmp"), StepRef(s.ID, "outputs", "success", "a"), Lit(int64(rapid.IntRange(0, 12).Draw(g.t, "cmp_lit"))))
		}
		return Lit(true)
	default:
		return Op(">=", g.inputInt(), Lit(int64(rapid.IntRange(0, 6).Draw(g.t, "cmp_lit2"))))
	}
}

func (g *genCtx) dur() int64 {
	if len(g.prof.Durs) == 0 {
		return 0
	}
	if g.prof.EqualDur {
		return g.prof.Durs[0]
	}
	return rapid.SampledFrom(g.prof.Durs).Draw(g.t, "dur")
}

func (g *genCtx) genPluginStep(id string) *Step {
	s := &Step{ID: id, Kind: "plugin"}
	s.In = append(s.In, F("a", g.genInt(0)))
	if g.pct(60, "has_s") {
		s.In = append(s.In, F("s", g.genStr(0)))
	}
	if g.pct(15, "has_l") {
		s.In = append(s.In, F("l", Lit([]any{int64(1), int64(rapid.IntRange(0, 5).Draw(g.t, "l1"))})))
	}
	if !g.item && g.pct(10, "has_o") {
		// a required reference to an optional input field is only safe when the document has it
		if _, ok := g.doc["opt"]; ok {
			s.In = append(s.In, F("o", Ref("input", "opt")))
		}
	}
	mode := ""
	if g.pct(g.prof.PBad, "bad") && len(g.prof.Modes) > 0 {
		mode = rapid.SampledFrom(g.prof.Modes).Draw(g.t, "mode")
		s.In = append(s.In, F("mode", Lit(mode)))
	} else if g.item && g.pct(50, "item_mode") {
		mode = "item"
		s.In = append(s.In, F("mode", Ref("input", "mode")))
	}
	if mode != "alt" && mode != "item" && g.pct(g.prof.PSimple, "simple") {
		s.Simple = true
	}
	if d := g.dur(); d > 0 {
		s.In = append(s.In, F("dur", Lit(d)))
	} else if g.item && g.pct(50, "item_dur") {
		s.In = append(s.In, F("dur", Ref("input", "dur")))
	}
	if g.pct(g.prof.PNoSignal, "nosignal") {
		s.NoSignal = true
	}
	if g.pct(g.prof.IgnoreCancel, "ignore_cancel") {
		s.In = append(s.In, F("on_cancel", Lit("ignore")))
	}
	if g.pct(g.prof.WaitOnNeverPath, "wait_never") {
		if p := g.pickPrior("wf_never_src"); p != nil && p.Kind == "plugin" {
			s.WaitFor = StepRef(p.ID, rapid.SampledFrom([]string{"crashed", "deploy_failed"}).Draw(g.t, "never_stage"), "error")
		}
	} else if g.pct(g.prof.PWaitFor, "waitfor") {
		if p := g.pickPrior("wf_src"); p != nil {
			switch rapid.IntRange(0, 3).Draw(g.t, "wf_kind") {
			case 0:
				s.WaitFor = StepRef(p.ID, "outputs", "success")
			case 1:
				s.WaitFor = StepRef(p.ID, "outputs", "")
			case 2:
				if p.Kind == "plugin" {
					s.WaitFor = StepRef(p.ID, "starting", "started")
				} else {
					s.WaitFor = StepRef(p.ID, "outputs", "success")
				}
			default:
				if p.Kind == "plugin" && g.pct(g.prof.PErrPathRef, "wf_err") {
					s.WaitFor = StepRef(p.ID, "outputs", "error")
				} else {
					s.WaitFor = StepRef(p.ID, "outputs", "success")
				}
			}
		}
	}
	if g.pct(g.prof.PDisabled, "enabled") {
		s.Enabled = g.genBool()
		if g.pct(g.prof.PLiteralFalse, "enabled_literal_false") {
			// a YAML scalar that the bool schema reads as false
			s.Enabled = Lit(rapid.SampledFrom([]string{"false", "no", "off", "n", "0", "disable", "disabled", "No", "OFF"}).Draw(g.t, "false_spelling"))
		} else if g.pct(15, "enabled_literal_true") {
			// ... or as true: a literal reaches the step as the scalar's text, and must mean what it says
			// (it used to disable the step: defect D21)
			s.Enabled = Lit(rapid.SampledFrom([]string{"true", "yes", "on", "y", "1", "enable", "enabled", "True", "ON"}).Draw(g.t, "true_spelling"))
		}
	}
	if s.StopIf == nil && !s.Simple && !s.NoSignal && g.pct(g.prof.PStopFalse, "stop_if_literal_false") {
		s.StopIf = Lit(rapid.SampledFrom([]string{"false", "no", "off", "False"}).Draw(g.t, "stop_false_spelling"))
	}
	if g.prof.Tags && len(g.prior) > 0 {
		if g.pct(50, "tag_o") {
			src := g.pickPrior("tag_o_src")
			if src.Kind == "plugin" {
				tag := rapid.SampledFrom([]string{"wait-optional", "soft-optional"}).Draw(g.t, "tag_o_kind")
				s.In = setField(s.In, "o", Opt(tag, StepRef(src.ID, "outputs", "success", "s")))
			}
		}
		if len(g.prior) >= 2 && !g.item && g.pct(g.prof.SamePathTags, "tag_same_path") {
			// two tagged values at the same place inside two fields of one stage (input.o and wait_for.o). The
			// engine names the nodes of tagged values by the path inside the field only, so it refuses such a
			// workflow ("node ... already exists"); if it accepts it, each value must still be its own.
			a, b := g.prior[len(g.prior)-1], g.prior[len(g.prior)-2]
			if a.Kind == "plugin" && b.Kind == "plugin" {
				s.In = setField(s.In, "o", Opt("wait-optional", StepRef(a.ID, "outputs", "success", "s")))
				s.WaitFor = Obj(F("o", Opt("wait-optional", StepRef(b.ID, "outputs", "success", "s"))))
				g.p.SamePathTags = true
				return s
			}
		}
		if g.pct(g.prof.OptionalRequired, "tag_required") {
			// an optional expression in a field the step requires: accepted; absent whenever its source is
			if src := g.pickPrior("tag_required_src"); src != nil && src.Kind == "plugin" {
				s.In = setField(s.In, "a", Opt("wait-optional", StepRef(src.ID, "outputs", "success", "a")))
			}
		}
		if len(g.prior) >= 2 && g.pct(35, "tag_wf") {
			a, b := g.prior[len(g.prior)-1], g.prior[len(g.prior)-2]
			if a.Kind == "plugin" && b.Kind == "plugin" {
				optB := StepRef(b.ID, "outputs", "success")
				if g.pct(40, "tag_wf_disabled") {
					optB = StepRef(a.ID, "disabled", "output")
				}
				s.WaitFor = OneOf("n_a", F("first", StepRef(a.ID, "outputs", "success")), F("second", optB))
			}
		}
	}
	if g.pct(g.prof.PDeployFail, "deployfail") {
		s.Deploy = &Deploy{Mode: Lit("fail")}
	} else if g.pct(g.prof.PDeploySlow, "deployslow") {
		s.Deploy = &Deploy{Latency: Lit(int64(rapid.SampledFrom([]int{1, 7, 20, 50}).Draw(g.t, "latency")))}
		if g.pct(30, "deploy_expr") {
			s.Deploy.Latency = g.inputInt()
		}
		if g.pct(g.prof.PDeployExpr, "deploy_step_expr") {
			if pr := g.pickPrior("deploy_src"); pr != nil && pr.Kind == "plugin" {
				s.Deploy.Latency = StepRef(pr.ID, "outputs", "success", "a")
			}
		}
	}
	if len(g.prof.Closure) > 0 && g.pct(30, "closure") {
		c := rapid.SampledFrom(g.prof.Closure).Draw(g.t, "closure_v")
		s.Closure = &c
	}
	return s
}

// subProgram generates a loop body: item input, a few plugin steps, a `success` output.
func (g *genCtx) subProgram(name string, depth int) *Program {
	sub := &Program{Name: name, Item: true, SrcPrefix: name + "/", Subs: map[string]*Program{}}
	prof := *g.prof
	prof.Foreach = 0
	prof.HangIsland, prof.StopIf, prof.FanIn, prof.ErrOutput, prof.Tags = false, false, 0, false, false
	prof.PDisabled, prof.PWaitFor, prof.PDeployFail = 0, prof.PWaitFor/2, 0
	prof.PBad = 0
	sg := &genCtx{t: g.t, prof: &prof, p: sub, item: true}
	n := rapid.IntRange(1, 2).Draw(g.t, "sub_steps")
	for i := 0; i < n; i++ {
		st := sg.genPluginStep(fmt.Sprintf("b%d", i))
		if i == 0 {
			// make the item decide the outcome of the body
			st.In = setField(st.In, "a", Ref("input", "v"))
			st.In = setField(st.In, "mode", Ref("input", "mode"))
			st.In = setField(st.In, "dur", Ref("input", "dur"))
		}
		sub.Steps = append(sub.Steps, st)
		sg.prior = append(sg.prior, st)
	}
	last := sub.Steps[len(sub.Steps)-1]
	fields := []Field{F("r", StepRef(last.ID, "outputs", "success", "a")), F("first", StepRef("b0", "outputs", "success"))}
	// every loop body has an output field of its own name: two loops over different files must never be
	// mistaken for one another (schemas, results)
	fields = append(fields, F("of_"+strings.NewReplacer("/", "_", ".", "_").Replace(name), Ref("input", "v")))
	if depth < g.prof.MaxDepth && g.pct(60, "nested_loop") {
		dir := ""
		if g.pct(50, "nested_dir") {
			dir = "deep/"
		}
		nname := fmt.Sprintf("%sd%d_%s", dir, depth+1, strings.ReplaceAll(name, "/", "_"))
		if g.pct(30, "shared_nested") {
			nname = fmt.Sprintf("%sshared%d.yaml", dir, depth+1)
		}
		if g.shared == nil {
			g.shared = map[string]*Program{}
		}
		if existing, ok := g.shared[nname]; ok {
			sub.Subs[nname] = existing
		} else {
			nested := g.subProgram(nname, depth+1)
			g.shared[nname] = nested
			sub.Subs[nname] = nested
		}
		k := rapid.IntRange(0, 2).Draw(g.t, "nested_items")
		var its []*Expr
		for j := 0; j < k; j++ {
			its = append(its, Obj(F("v", Lit(int64(j+1)))))
		}
		sub.Steps = append(sub.Steps, &Step{ID: "inner", Kind: "foreach", Sub: nname, Items: &Expr{K: "list", Items: its}})
		fields = append(fields, F("inner", StepRef("inner", "outputs", "success", "data")))
	}
	sub.Outputs = []Output{{ID: "success", E: Obj(fields...)}}
	return sub
}

func setField(fs []Field, name string, e *Expr) []Field {
	for i := range fs {
		if fs[i].Name == name {
			fs[i].E = e
			return fs
		}
	}
	return append(fs, F(name, e))
}

// GenProgram draws a well-typed program for the profile and input document.
func GenProgram(t *rapid.T, prof *Profile, doc Doc) *Program {
	p := &Program{Subs: map[string]*Program{}}
	g := &genCtx{t: t, prof: prof, p: p, doc: doc}
	min := prof.MinSteps
	if min < 1 {
		min = 1
	}
	n := rapid.IntRange(min, prof.MaxSteps).Draw(t, "nsteps")
	if prof.FanIn > 0 {
		n = prof.FanIn
	}
	for i := 0; i < n; i++ {
		id := fmt.Sprintf("s%d", i)
		var s *Step
		if prof.FanIn > 0 {
			s = &Step{ID: id, Kind: "plugin", In: []Field{F("a", Lit(int64(i)))}}
			if g.pct(prof.PBad, "bad") && len(prof.Modes) > 0 {
				s.In = append(s.In, F("mode", Lit(rapid.SampledFrom(prof.Modes).Draw(t, "mode"))))
			}
			if d := g.dur(); d > 0 {
				s.In = append(s.In, F("dur", Lit(d)))
			}
			if g.pct(prof.PDeployFail, "deployfail") {
				s.Deploy = &Deploy{Mode: Lit("fail")}
			} else if g.pct(prof.RuntimeErr, "fanin_rterr") {
				// a deploy-time expression that fails at run time: all of these are evaluated in the very first
				// notification round, more of them than the engine's error channel holds
				s.Deploy = &Deploy{Latency: Op("/", Lit(int64(5)), Ref("input", "zero"))}
			}
		} else if g.pct(prof.Foreach, "foreach") {
			name := fmt.Sprintf("sub%d.yaml", i)
			p.Subs[name] = g.subProgram(name, 1)
			s = &Step{ID: id, Kind: "foreach", Sub: name}
			var itemSrc *Step
			for _, pr := range g.prior {
				if pr.Kind == "plugin" && !pr.Simple {
					itemSrc = pr
				}
			}
			if itemSrc != nil && g.pct(prof.ItemsFromStep, "items_from_step") {
				// the loop runs over what an earlier step returned
				s.Items = StepRef(itemSrc.ID, "outputs", "success", "its")
				if g.pct(prof.OptionalItems, "items_optional") {
					s.Items = Opt(rapid.SampledFrom([]string{"wait-optional", "soft-optional"}).Draw(t, "items_tag"), s.Items)
				}
			} else if items, ok := doc["items"]; ok && g.pct(50, "items_from_input") {
				_ = items
				s.Items = Ref("input", "items")
			} else {
				k := rapid.IntRange(0, 4).Draw(t, "nlit_items")
				var its []*Expr
				for j := 0; j < k; j++ {
					fs := []Field{F("v", g.genInt(1))}
					if g.pct(prof.PBad, "item_bad") && len(prof.Modes) > 0 {
						fs = append(fs, F("mode", Lit(rapid.SampledFrom(prof.Modes).Draw(t, "item_mode"))))
					}
					if len(prof.Durs) > 0 {
						fs = append(fs, F("dur", Lit(rapid.SampledFrom(prof.Durs).Draw(t, "item_dur"))))
					}
					its = append(its, Obj(fs...))
				}
				s.Items = &Expr{K: "list", Items: its}
			}
			if g.pct(60, "par") {
				s.Parallelism = Lit(int64(rapid.IntRange(1, 5).Draw(t, "par_v")))
			}
			if g.pct(prof.PWaitFor, "loop_wf") {
				if pr := g.pickPrior("loop_wf_src"); pr != nil {
					s.WaitFor = StepRef(pr.ID, "outputs", "success")
				}
			}
			if g.pct(prof.PDisabled, "loop_enabled") {
				s.Enabled = g.genBool()
			}
		} else {
			s = g.genPluginStep(id)
		}
		p.Steps = append(p.Steps, s)
		g.prior = append(g.prior, s)
	}
	// outputs
	var fields []Field
	if prof.FanIn > 0 {
		for _, s := range p.Steps {
			fields = append(fields, F(s.ID, StepRef(s.ID, "outputs", "success", "a")))
		}
	} else {
		last := p.Steps[len(p.Steps)-1]
		fields = append(fields, F("last", g.outRef(last)))
		for _, s := range p.Steps[:len(p.Steps)-1] {
			if g.pct(35, "out_more") {
				fields = append(fields, F(s.ID, g.outRef(s)))
			}
		}
		if g.pct(30, "out_input") {
			fields = append(fields, F("in", Ref("input", "n")))
		}
		if g.pct(25, "out_input_tag") {
			fields = append(fields, F("in_tag", Ref("input", "tag")))
		}
		if g.pct(prof.HeteroList, "hetero_list") {
			fields = append(fields, F("hl", &Expr{K: "list", Items: []*Expr{
				Obj(F("p", Ref("input", "n"))),
				Obj(F("q", Ref("input", "tag"))),
			}}))
		}
		if prof.DeepExpr && g.pct(20, "out_list_of_lists") {
			// expressions two list levels down
			// (only expressions: an integer literal in an output is a YAML scalar, i.e. a string)
			second := Op("+", Ref("input", "n"), Ref("input", "n"))
			if last := p.Steps[len(p.Steps)-1]; last.Kind == "plugin" {
				second = StepRef(last.ID, "outputs", "success", "a")
			}
			inner := []*Expr{Ref("input", "n"), second}
			fields = append(fields, F("ll", &Expr{K: "list", Items: []*Expr{
				{K: "list", Items: []*Expr{Ref("input", "n"), Ref("input", "n")}},
				{K: "list", Items: inner},
			}}))
		}
		if prof.DeepExpr && g.pct(25, "out_float_string") {
			// a conversion chain through the float functions (whole numbers print without a decimal point)
			fields = append(fields, F("fstr", Call("floatToString", Call("intToFloat", Ref("input", "n")))))
		}
		if prof.DeepExpr && g.pct(25, "out_float_formatted") {
			f := rapid.SampledFrom([]string{"f", "e", "E", "g", "G", "b", "x", "X"}).Draw(t, "float_format")
			prec := int64(rapid.SampledFrom([]int{-1, 0, 2}).Draw(t, "float_precision"))
			fields = append(fields, F("ffmt", Call("floatToFormattedString", Call("intToFloat", Ref("input", "n")), Lit(f), Lit(prec))))
		}
		for _, s := range p.Steps {
			if s.Kind == "plugin" && g.pct(prof.StageRefs, "stage_ref") {
				fields = append(fields, F("st_"+s.ID, StepRef(s.ID, "outputs", "")))
			}
		}
	}
	if prof.Tags {
		var plug []*Step
		for _, s := range p.Steps {
			if s.Kind == "plugin" {
				plug = append(plug, s)
			}
		}
		if len(plug) >= 2 && g.pct(60, "oneof_two_steps") {
			// both options can be produced; the data and the discriminator must belong together
			a := plug[rapid.IntRange(0, len(plug)-1).Draw(t, "pick_a")]
			b := plug[rapid.IntRange(0, len(plug)-1).Draw(t, "pick_b")]
			if a != b {
				// (option names may contain dots: they are names, not paths)
				sep := rapid.SampledFrom([]string{"_", "_", "."}).Draw(t, "option_name_sep")
				// (nor does the order of the names say anything about which option is produced first)
				na, nb := "opt"+sep+a.ID, "opt"+sep+b.ID
				if rapid.Bool().Draw(t, "option_names_swapped_order") {
					na, nb = "z"+na, "y"+nb
					if a.ID > b.ID {
						na, nb = "y"+na[1:], "z"+nb[1:]
					}
				}
				fields = append(fields, F("pick", OneOf("which", F(na, StepRef(a.ID, "outputs", "success")), F(nb, StepRef(b.ID, "outputs", "success")))))
			}
		}
		if len(plug) >= 2 && g.pct(50, "optional_two_sources") {
			// an optional whose expression reads two sources: present only if both were produced
			a := plug[rapid.IntRange(0, len(plug)-1).Draw(t, "opt2_a")]
			b := plug[rapid.IntRange(0, len(plug)-1).Draw(t, "opt2_b")]
			if a != b {
				tag := rapid.SampledFrom([]string{"wait-optional", "soft-optional"}).Draw(t, "opt2_tag")
				fields = append(fields, F("both_"+a.ID+"_"+b.ID, Opt(tag, Op("+", StepRef(a.ID, "outputs", "success", "s"), StepRef(b.ID, "outputs", "success", "s")))))
			}
		}
		for _, s := range p.Steps {
			if s.Kind != "plugin" {
				if s.Kind == "foreach" && prof.ErrorPathWaits && g.pct(30, "loop_failed_optional") {
					// the error path of a loop: absent exactly when the loop did not fail
					fields = append(fields, F("wf_"+s.ID, Opt("wait-optional", StepRef(s.ID, "failed", "error", "errors"))))
				}
				continue
			}
			if g.pct(20, "wait_disabled_output") {
				// the disabled message of a step that may be enabled and still never start (its input never
				// comes): absent as soon as the step is known to be enabled
				fields = append(fields, F("wd_"+s.ID, Opt("wait-optional", StepRef(s.ID, "disabled", "output", "message"))))
			}
			k := rapid.IntRange(0, 6).Draw(t, "out_tag")
			if k == 6 && prof.ErrorPathWaits && rapid.Bool().Draw(t, "error_path_wait") {
				k = 7
			}
			switch k {
			case 7:
				// an error-path stage of a step that (in these profiles) never takes it: once the step has
				// ended another way the field is absent
				if prof.ErrorPathWaits && prof.PBad == 0 && prof.PDeployFail == 0 {
					// (not closed.result: a run that is cancelled closes its steps, and a step that never starts is
					// closed when the run is torn down - whether that stage occurs is a matter of how the run ends)
					stage := rapid.SampledFrom([]string{"crashed", "deploy_failed"}).Draw(t, "error_path_stage")
					out := "error"
					fields = append(fields, F("wx_"+s.ID, Opt("wait-optional", StepRef(s.ID, stage, out))))
				}
			case 0:
				fields = append(fields, F("w_"+s.ID, Opt("wait-optional", StepRef(s.ID, "outputs", "success", "a"))))
			case 1:
				fields = append(fields, F("so_"+s.ID, Opt("soft-optional", StepRef(s.ID, "outputs", "success", "s"))))
			case 2:
				fields = append(fields, F("od_"+s.ID, Opt("ordisabled", StepRef(s.ID, "outputs", "success"))))
			case 3:
				ran := rapid.SampledFrom([]string{"ran", "ran", "ran.v1"}).Draw(t, "ran_option_name")
				fields = append(fields, F("oo_"+s.ID, OneOf("kind", F(ran, StepRef(s.ID, "outputs", "success")), F("off", StepRef(s.ID, "disabled", "output")))))
			case 5:
				// waiting for an output the step may well not end in: absent exactly then
				fields = append(fields, F("we_"+s.ID, Opt("wait-optional", StepRef(s.ID, "outputs", "error", "reason"))))
			case 6:
				// optional items directly in a list: an absent one is left out
				fields = append(fields, F("wl_"+s.ID, &Expr{K: "list", Items: []*Expr{
					Opt("wait-optional", StepRef(s.ID, "outputs", "success", "s")),
					Opt("wait-optional", StepRef(s.ID, "outputs", "error", "reason")),
				}}))
			case 4:
				fields = append(fields, F("nest_"+s.ID, &Expr{K: "list", Items: []*Expr{
					Obj(F("item", OneOf("kind", F("ok", StepRef(s.ID, "outputs", "success")), F("err", StepRef(s.ID, "outputs", "error")), F("off", StepRef(s.ID, "disabled", "output")))),
						F("w", Opt("wait-optional", StepRef(s.ID, "outputs", "success", "nonce")))),
				}}))
			}
		}
	}
	if prof.RuntimeErr > 0 && g.pct(prof.RuntimeErr, "rterr") {
		fields = append(fields, F("rt", g.runtimeErrExpr()))
	}
	p.Outputs = append(p.Outputs, Output{ID: "success", E: Obj(fields...)})
	nOut := 1
	if prof.MaxOutputs > 1 {
		nOut = rapid.IntRange(1, prof.MaxOutputs).Draw(t, "nout")
	}
	if prof.ErrOutput && nOut < 2 {
		nOut = 2
	}
	if nOut >= 2 {
		// an output fed by the error paths of one step
		s := p.Steps[rapid.IntRange(0, len(p.Steps)-1).Draw(t, "errout_src")]
		var e *Expr
		if s.Kind == "foreach" {
			switch rapid.IntRange(0, 3).Draw(t, "loop_errout_kind") {
			case 0:
				e = Obj(F("f", StepRef(s.ID, "failed", "error", "data")))
			case 1:
				e = Obj(F("f", StepRef(s.ID, "failed", "error", "errors")))
			case 2:
				// one item's error message, looked up by its index (an integer-keyed map)
				x := StepRef(s.ID, "failed", "error", "errors")
				x.Path = append(x.Path, int64(rapid.IntRange(0, 2).Draw(t, "loop_err_index")))
				e = Obj(F("f", x))
			default:
				e = Obj(F("f", StepRef(s.ID, "failed", "error")))
			}
		} else {
			k := rapid.IntRange(0, 3).Draw(t, "errout_kind")
			if !prof.StructRefs && (k == 1 || k == 2) {
				k = 0
			}
			switch k {
			case 0:
				e = Obj(F("e", StepRef(s.ID, "outputs", "error")))
			case 1:
				e = Obj(F("e", StepRef(s.ID, "crashed", "error")))
			case 2:
				e = Obj(F("e", StepRef(s.ID, "deploy_failed", "error")))
			default:
				e = Obj(F("e", StepRef(s.ID, "disabled", "output")))
			}
		}
		p.Outputs = append(p.Outputs, Output{ID: "fallback", E: e})
	}
	if nOut >= 2 && prof.FanIn == 0 && g.pct(50, "partial_output") {
		// a second output that shares one (typically late) dependency with the main output
		last := p.Steps[len(p.Steps)-1]
		if last.Kind == "plugin" {
			p.Outputs = append(p.Outputs, Output{ID: "partial", E: Obj(F("p", StepRef(last.ID, "outputs", "success", "a")))})
		}
	}
	if nOut >= 3 {
		s := p.Steps[rapid.IntRange(0, len(p.Steps)-1).Draw(t, "alt_src")]
		if s.Kind == "plugin" {
			if !s.Simple {
				p.Outputs = append(p.Outputs, Output{ID: "other", E: Obj(F("x", StepRef(s.ID, "outputs", "alt", "a")))})
			}
		} else {
			p.Outputs = append(p.Outputs, Output{ID: "other", E: Obj(F("x", StepRef(s.ID, "disabled", "output")))})
		}
	}
	if prof.StopBeforeStart {
		d := rapid.SampledFrom([]int64{50, 200, 1000}).Draw(t, "zslow_dur")
		z := &Step{ID: "zslow", Kind: "plugin", In: []Field{F("a", Lit(int64(4))), F("s", Lit("zz")), F("dur", Lit(d))}}
		y := &Step{ID: "ystop", Kind: "plugin", In: []Field{F("a", Lit(int64(5))), F("dur", Lit(rapid.SampledFrom([]int64{0, 1, 5}).Draw(t, "ystop_dur")))}}
		x := &Step{ID: "xvictim", Kind: "plugin", In: []Field{F("a", Lit(int64(6))), F("dur", Lit(int64(1)))}, StopIf: StepRef("ystop", "outputs", "")}
		if rapid.IntRange(0, 2).Draw(t, "stop_when_started") == 0 {
			// "stop the victim as soon as the other one is up": the value of the condition is an empty object
			x.StopIf = StepRef("ystop", "starting", "started")
		}
		switch rapid.IntRange(0, 2).Draw(t, "victim_waits_by") {
		case 0:
			x.Enabled = Op("==", StepRef("zslow", "outputs", "success", "s"), Lit("<zz>"))
		case 1:
			x.WaitFor = StepRef("zslow", "outputs", "success")
		default:
			x.In = setField(x.In, "s", StepRef("zslow", "outputs", "success", "s"))
		}
		p.Steps = append(p.Steps, z, y, x)
		o := &p.Outputs[0]
		o.E.Fields = append(o.E.Fields, F("z", StepRef("zslow", "outputs", "success", "a")),
			F("victim", OneOf("how", F("ran", StepRef("xvictim", "outputs", "")), F("closed", StepRef("xvictim", "closed", "result")))))
	}
	if prof.ClosedOutput {
		slow := &Step{ID: "slowsrc", Kind: "plugin", In: []Field{F("a", Lit(int64(1))), F("dur", Lit(int64(3000)))}}
		w := &Step{ID: "waiter", Kind: "plugin", In: []Field{F("a", Lit(int64(2)))}, WaitFor: StepRef("slowsrc", "outputs", "success"), NoSignal: g.pct(50, "waiter_nosignal")}
		if g.pct(30, "waiter_slow_deploy") {
			w.Deploy = &Deploy{Latency: Lit(int64(500))}
		}
		p.Steps = append(p.Steps, slow, w)
		p.Outputs[0].E.Fields = append(p.Outputs[0].E.Fields, F("waiter", StepRef("waiter", "outputs", "success", "a")))
		p.Outputs = append(p.Outputs, Output{ID: "closed", E: Obj(F("c", StepRef("waiter", "closed", "result")))})
	}
	if prof.SoftHang {
		p.Steps = append(p.Steps, &Step{ID: "slow", Kind: "plugin", In: []Field{F("a", Lit(int64(1))), F("mode", Lit("hang"))}})
		o := &p.Outputs[0]
		soft := Opt("soft-optional", StepRef("slow", "outputs", "success", "s"))
		var quick *Step
		for _, s := range p.Steps {
			if s.Kind == "plugin" && s.ID != "slow" {
				quick = s
				break
			}
		}
		// where the reference sits must not matter: it never delays its consumer
		switch rapid.IntRange(0, 4).Draw(t, "softhang_place") {
		case 0:
			o.E.Fields = append(o.E.Fields, F("so_slow", soft))
		case 1:
			// inside the object of a one-of option, next to a required part
			if quick != nil {
				o.E.Fields = append(o.E.Fields, F("rep", OneOf("kind", F("full", Obj(F("req", StepRef(quick.ID, "outputs", "success", "a")), F("opt", soft))))))
			} else {
				o.E.Fields = append(o.E.Fields, F("so_slow", soft))
			}
		case 2:
			// nested in a list of objects
			o.E.Fields = append(o.E.Fields, F("nest_slow", &Expr{K: "list", Items: []*Expr{Obj(F("n", Lit("k")), F("opt", soft))}}))
		case 3:
			// as the input of a step the output needs
			c := &Step{ID: "softc", Kind: "plugin", In: []Field{F("a", Lit(int64(4))), F("o", soft)}}
			p.Steps = append(p.Steps, c)
			o.E.Fields = append(o.E.Fields, F("softc", StepRef("softc", "outputs", "success", "a")))
		default:
			// next to a one-of over the same quick step, both in one object
			if quick != nil {
				o.E.Fields = append(o.E.Fields, F("both", Obj(F("opt", soft), F("pick", OneOf("kind", F("ran", StepRef(quick.ID, "outputs", "success")), F("off", StepRef(quick.ID, "disabled", "output")))))))
			} else {
				o.E.Fields = append(o.E.Fields, F("so_slow", soft))
			}
		}
	}
	if prof.OnlyErrOutputs && len(p.Outputs) > 1 {
		p.Outputs = p.Outputs[1:]
	}
	if prof.HangIsland {
		hang := &Step{ID: "hang", Kind: "plugin", In: []Field{F("a", Lit(int64(1))), F("mode", Lit("hang"))}}
		if prof.IslandIgnoresCancel {
			// ... and does not stop when asked to: the run has to close it after its closure timeout (0 or 10 ms)
			hang.In = append(hang.In, F("on_cancel", Lit("ignore")))
			c := rapid.SampledFrom([]int64{0, 0, 10}).Draw(t, "island_closure")
			hang.Closure = &c
		}
		p.Steps = append(p.Steps, hang)
	}
	if prof.StopIf {
		// shape A: `victim` hangs until `stopper` (which waits for the victim to be started) has finished
		oc := rapid.SampledFrom([]string{"finish", "finish", "ignore"}).Draw(t, "victim_on_cancel")
		victim := &Step{ID: "victim", Kind: "plugin", In: []Field{F("a", Lit(int64(2))), F("mode", Lit("hang")), F("on_cancel", Lit(oc))},
			StopIf: StepRef("stopper", "outputs", "")}
		c := int64(10)
		victim.Closure = &c
		stopper := &Step{ID: "stopper", Kind: "plugin", In: []Field{F("a", Lit(int64(3))), F("dur", Lit(g.dur()))}, WaitFor: StepRef("victim", "starting", "started")}
		p.Steps = append(p.Steps, victim, stopper)
		o := &p.Outputs[0]
		if oc == "finish" {
			o.E.Fields = append(o.E.Fields, F("victim", StepRef("victim", "outputs", "cancelled", "msg")))
		} else if prof.StructRefs {
			o.E.Fields = append(o.E.Fields, F("victim", StepRef("victim", "crashed", "error")))
		}
	}
	return p
}

func (g *genCtx) outRef(s *Step) *Expr {
	if s.Kind == "foreach" {
		return StepRef(s.ID, "outputs", "success", "data")
	}
	switch rapid.IntRange(0, 4).Draw(g.t, "outref_kind") {
	case 0:
		return StepRef(s.ID, "outputs", "success")
	case 1:
		return StepRef(s.ID, "outputs", "success", "a")
	case 2:
		return StepRef(s.ID, "outputs", "success", "s")
	case 3:
		return StepRef(s.ID, "outputs", "success", "nonce")
	default:
		if g.prof.PluginArith {
			return Op("+", StepRef(s.ID, "outputs", "success", "a"), Lit(int64(1)))
		}
		return StepRef(s.ID, "outputs", "success", "l")
	}
}

// runtimeErrExpr builds a well-typed expression that fails when evaluated.
func (g *genCtx) runtimeErrExpr() *Expr {
	last := g.p.Steps[len(g.p.Steps)-1]
	src := StepRef(last.ID, "outputs", "success", "a")
	if last.Kind != "plugin" {
		src = Ref("input", "n")
	}
	switch rapid.IntRange(0, 4).Draw(g.t, "rterr_kind") {
	case 0:
		return Op("/", src, Ref("input", "zero"))
	case 1:
		return Op("%", src, Ref("input", "zero"))
	case 2:
		return Call("stringToInt", Lit("x"))
	case 3:
		if _, ok := g.doc["opt"]; !ok {
			return Ref("input", "opt")
		}
		return Call("stringToInt", Ref("input", "tag"))
	default:
		n := 0
		if it, ok := g.doc["items"].([]any); ok {
			n = len(it)
			return Ref("input", "items", n, "v")
		}
		return Op("/", src, Ref("input", "zero"))
	}
}
