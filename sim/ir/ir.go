// Package ir is the program IR of generated workflows (DESIGN.md §3.1): a small structured program
// that is printed to YAML for the real engine and interpreted directly by the reference model.
package ir

import (
	"encoding/json"
	"fmt"
	"sort"
	"strconv"
	"strings"
)

// Expr is an expression or literal structure inside a workflow.
type Expr struct {
	K string `json:"k"` // lit | ref | op | call | oneof | opt | obj | list
	// lit
	V any `json:"v,omitempty"`
	// ref: ["input","n"] / ["steps","s1","outputs","success","a"]; ints index lists
	Path []any `json:"path,omitempty"`
	// op (binary operator) / call (function name)
	Op   string  `json:"op,omitempty"`
	Args []*Expr `json:"args,omitempty"`
	// oneof
	Disc string  `json:"disc,omitempty"`
	Opts []Field `json:"opts,omitempty"`
	// opt: Tag is wait-optional | soft-optional | ordisabled; Args[0] is the expression
	Tag string `json:"tag,omitempty"`
	// obj / list
	Fields []Field `json:"fields,omitempty"`
	Items  []*Expr `json:"items,omitempty"`
}

// Field is a named sub-expression.
type Field struct {
	Name string `json:"name"`
	E    *Expr  `json:"e"`
}

// Lit builds a literal.
func Lit(v any) *Expr { return &Expr{K: "lit", V: v} }

// Ref builds a reference.
func Ref(path ...any) *Expr { return &Expr{K: "ref", Path: path} }

// StepRef builds $.steps.<id>.<stage>.<output>[.field...].
func StepRef(id, stage, output string, fields ...string) *Expr {
	p := []any{"steps", id, stage}
	if output != "" {
		p = append(p, output)
	}
	for _, f := range fields {
		p = append(p, f)
	}
	return &Expr{K: "ref", Path: p}
}

// Op builds a binary operation.
func Op(op string, a, b *Expr) *Expr { return &Expr{K: "op", Op: op, Args: []*Expr{a, b}} }

// Call builds a function call.
func Call(fn string, args ...*Expr) *Expr { return &Expr{K: "call", Op: fn, Args: args} }

// Obj builds an object literal with expression fields.
func Obj(fields ...Field) *Expr { return &Expr{K: "obj", Fields: fields} }

// F is a Field constructor.
func F(name string, e *Expr) Field { return Field{Name: name, E: e} }

// Opt builds a tagged optional expression.
func Opt(tag string, e *Expr) *Expr { return &Expr{K: "opt", Tag: tag, Args: []*Expr{e}} }

// OneOf builds a !oneof.
func OneOf(disc string, opts ...Field) *Expr { return &Expr{K: "oneof", Disc: disc, Opts: opts} }

// Step is one workflow step.
type Step struct {
	ID   string `json:"id"`
	Kind string `json:"kind"` // plugin | foreach
	// plugin
	NoSignal bool `json:"nosignal,omitempty"` // use the step without a cancel signal
	// Simple: use the plugin step that declares only `success` and `error` (one regular output, one error
	// output, no cancel signal): what holds for a step with several regular outputs must hold for it too.
	Simple  bool    `json:"simple,omitempty"`
	In      []Field `json:"in,omitempty"` // a, s, l, o, mode, dur, on_cancel
	WaitFor *Expr   `json:"wait_for,omitempty"`
	Enabled *Expr   `json:"enabled,omitempty"`
	StopIf  *Expr   `json:"stop_if,omitempty"`
	Deploy  *Deploy `json:"deploy,omitempty"`
	Closure *int64  `json:"closure,omitempty"`
	// foreach
	Sub         string `json:"sub,omitempty"`
	Items       *Expr  `json:"items,omitempty"`
	Parallelism *Expr  `json:"parallelism,omitempty"`
	// NoInputKey omits the whole `input:` key of a plugin step (a corruption: the key is required).
	NoInputKey bool `json:"no_input_key,omitempty"`
	// SrcOverride keeps the plugin source when the step is renamed.
	SrcOverride string `json:"src_override,omitempty"`
}

// Deploy is the per-step deployment override.
type Deploy struct {
	Latency *Expr `json:"latency,omitempty"`
	Mode    *Expr `json:"mode,omitempty"`
}

// Output is one declared workflow output.
type Output struct {
	ID string `json:"id"`
	E  *Expr  `json:"e"`
}

// Program is a workflow plus the sub-workflows its loops use.
type Program struct {
	Name    string              `json:"name,omitempty"` // file name for sub-workflows
	Item    bool                `json:"item,omitempty"` // input schema is the loop item schema
	Steps   []*Step             `json:"steps"`
	Outputs []Output            `json:"outputs"`
	Subs    map[string]*Program `json:"subs,omitempty"`
	// SrcPrefix distinguishes the plugin sources of different (sub-)workflows.
	SrcPrefix string `json:"src_prefix,omitempty"`
	// Explicit lists outputs that get an explicit outputSchema {x: integer} with the given error flag.
	Explicit map[string]bool `json:"explicit,omitempty"`
	// DefaultM replaces the declared default of the optional integer input field m (YAML text).
	DefaultM string `json:"default_m,omitempty"`
	// SamePathTags: some step has tagged values at the same path inside two fields of one stage; the engine
	// may refuse such a text at preparation (its node ids collide).
	SamePathTags bool `json:"same_path_tags,omitempty"`
	// EnumDefault adds an optional input property `level` (enum_string low/high) with this default text.
	EnumDefault string `json:"enum_default,omitempty"`
	// DanglingInputRef makes the type of the input field `nested` refer to an object that is not declared.
	DanglingInputRef bool `json:"dangling_input_ref,omitempty"`
}

// Src is the plugin source of a step.
func (p *Program) Src(stepID string) string { return "sim://" + p.SrcPrefix + stepID }

// Step returns the step with the given id.
func (p *Program) Step(id string) *Step {
	for _, s := range p.Steps {
		if s.ID == id {
			return s
		}
	}
	return nil
}

// In returns the input field expression of a plugin step.
func (s *Step) Input(name string) *Expr {
	for _, f := range s.In {
		if f.Name == name {
			return f.E
		}
	}
	return nil
}

// ---------------------------------------------------------------------------------------------
// YAML printing

const rootInputSchema = `input:
  root: RootObject
  objects:
    RootObject:
      id: RootObject
      properties:
        n:
          type:
            type_id: integer
        m:
          required: false
          default: "7"
          type:
            type_id: integer
        tag:
          type:
            type_id: string
        flag:
          type:
            type_id: bool
        opt:
          required: false
          type:
            type_id: string
        zero:
          required: false
          default: "0"
          type:
            type_id: integer
        items:
          required: false
          type:
            type_id: list
            items:
              type_id: ref
              id: Item
        nested:
          required: false
          type:
            type_id: ref
            id: Nested
        ports:
          required: false
          type:
            type_id: map
            keys:
              type_id: integer
            values:
              type_id: string
    Item:
      id: Item
      properties:
        v:
          type:
            type_id: integer
        mode:
          required: false
          default: '"ok"'
          type:
            type_id: string
        dur:
          required: false
          default: "0"
          type:
            type_id: integer
        tag:
          required: false
          default: '""'
          type:
            type_id: string
        pat:
          required: false
          type:
            type_id: pattern
    Nested:
      id: Nested
      properties:
        x:
          type:
            type_id: integer
        y:
          required: false
          default: '"dflt"'
          type:
            type_id: string
`

const itemInputSchema = `input:
  root: Item
  objects:
    Item:
      id: Item
      properties:
        v:
          type:
            type_id: integer
        mode:
          required: false
          default: '"ok"'
          type:
            type_id: string
        dur:
          required: false
          default: "0"
          type:
            type_id: integer
        tag:
          required: false
          default: '""'
          type:
            type_id: string
        pat:
          required: false
          type:
            type_id: pattern
`

// ExprText renders an expression in the engine's expression language.
func ExprText(e *Expr) string {
	switch e.K {
	case "lit":
		switch v := e.V.(type) {
		case string:
			return strconv.Quote(v)
		case bool:
			return strconv.FormatBool(v)
		case float64:
			if v == float64(int64(v)) {
				return strconv.FormatInt(int64(v), 10)
			}
			return strconv.FormatFloat(v, 'g', -1, 64)
		default:
			return fmt.Sprint(v)
		}
	case "ref":
		var b strings.Builder
		b.WriteString("$")
		for _, p := range e.Path {
			switch x := p.(type) {
			case string:
				b.WriteString("." + x)
			case int:
				fmt.Fprintf(&b, "[%d]", x)
			case int64:
				fmt.Fprintf(&b, "[%d]", x)
			case float64:
				fmt.Fprintf(&b, "[%d]", int64(x))
			}
		}
		return b.String()
	case "op":
		return "(" + ExprText(e.Args[0]) + " " + e.Op + " " + ExprText(e.Args[1]) + ")"
	case "call":
		var as []string
		for _, a := range e.Args {
			as = append(as, ExprText(a))
		}
		return e.Op + "(" + strings.Join(as, ", ") + ")"
	}
	panic("ExprText: not an expression: " + e.K)
}

func yamlQuote(s string) string { return "'" + strings.ReplaceAll(s, "'", "''") + "'" }

// yamlValue renders e at the given indentation. The returned text starts right after "key:".
func yamlValue(e *Expr, ind int) string {
	pad := strings.Repeat(" ", ind)
	switch e.K {
	case "lit":
		switch v := e.V.(type) {
		case nil:
			return " null\n"
		case string:
			return " " + strconv.Quote(v) + "\n"
		case bool:
			// a YAML scalar reaches the step as the string "true"; the engine's `enabled` handling compares
			// with the boolean, so boolean literals are always written as expressions
			return " !expr " + yamlQuote(strconv.FormatBool(v)) + "\n"
		case []any:
			if len(v) == 0 {
				return " []\n"
			}
			var b strings.Builder
			b.WriteString("\n")
			for _, x := range v {
				b.WriteString(pad + "-" + yamlValue(litOf(x), ind+2))
			}
			return b.String()
		case map[string]any:
			if len(v) == 0 {
				return " {}\n"
			}
			keys := make([]string, 0, len(v))
			for k := range v {
				keys = append(keys, k)
			}
			sort.Strings(keys)
			var b strings.Builder
			b.WriteString("\n")
			for _, k := range keys {
				b.WriteString(pad + k + ":" + yamlValue(litOf(v[k]), ind+2))
			}
			return b.String()
		default:
			return " " + ExprText(e) + "\n"
		}
	case "ref", "op", "call":
		return " !expr " + yamlQuote(ExprText(e)) + "\n"
	case "opt":
		return " !" + e.Tag + " " + yamlQuote(ExprText(e.Args[0])) + "\n"
	case "oneof":
		var b strings.Builder
		b.WriteString(" !oneof\n")
		b.WriteString(pad + "discriminator: " + strconv.Quote(e.Disc) + "\n")
		b.WriteString(pad + "one_of:\n")
		for _, o := range e.Opts {
			b.WriteString(pad + "  " + o.Name + ":" + yamlValue(o.E, ind+4))
		}
		return b.String()
	case "obj":
		if len(e.Fields) == 0 {
			return " {}\n"
		}
		var b strings.Builder
		b.WriteString("\n")
		for _, f := range e.Fields {
			b.WriteString(pad + f.Name + ":" + yamlValue(f.E, ind+2))
		}
		return b.String()
	case "list":
		if len(e.Items) == 0 {
			return " []\n"
		}
		var b strings.Builder
		b.WriteString("\n")
		for _, it := range e.Items {
			s := yamlValue(it, ind+2)
			if strings.HasPrefix(s, "\n") {
				// nested block: put the first key on the dash line
				s = " " + strings.TrimPrefix(strings.TrimPrefix(s, "\n"), strings.Repeat(" ", ind+2))
			}
			b.WriteString(pad + "-" + s)
		}
		return b.String()
	}
	panic("yamlValue: " + e.K)
}

func litOf(x any) *Expr {
	if e, ok := x.(*Expr); ok {
		return e
	}
	return Lit(x)
}

// YAML prints the workflow text of p (not of its sub-workflows; see Files).
func (p *Program) YAML() string {
	var b strings.Builder
	b.WriteString("version: v0.2.0\n")
	if p.Item {
		b.WriteString(itemInputSchema)
	} else {
		text := rootInputSchema
		if p.DefaultM != "" {
			text = strings.Replace(text, `default: "7"`, "default: "+p.DefaultM, 1)
		}
		if p.EnumDefault != "" {
			// one more optional input property, an enumeration of strings with the given default text
			text = strings.Replace(text, "      properties:\n", "      properties:\n        level:\n          required: false\n          default: "+p.EnumDefault+
				"\n          type:\n            type_id: enum_string\n            values:\n              low: {}\n              high: {}\n", 1)
		}
		if p.DanglingInputRef {
			text = strings.Replace(text, "id: Nested\n", "id: NoSuchObject\n", 1)
		}
		b.WriteString(text)
	}
	b.WriteString("steps:\n")
	for _, s := range p.Steps {
		b.WriteString("  " + s.ID + ":\n")
		if s.Kind == "foreach" {
			b.WriteString("    kind: foreach\n")
			b.WriteString("    workflow: " + strconv.Quote(s.Sub) + "\n")
			b.WriteString("    items:" + yamlValue(s.Items, 6))
			if s.Parallelism != nil {
				b.WriteString("    parallelism:" + yamlValue(s.Parallelism, 6))
			}
		} else {
			b.WriteString("    plugin:\n")
			src := p.Src(s.ID)
			if s.SrcOverride != "" {
				src = s.SrcOverride
			}
			b.WriteString("      src: " + strconv.Quote(src) + "\n")
			b.WriteString("      deployment_type: \"sim\"\n")
			if s.Simple {
				b.WriteString("    step: work_simple\n")
			} else if s.NoSignal {
				b.WriteString("    step: work_nosignal\n")
			} else {
				b.WriteString("    step: work\n")
			}
			if !s.NoInputKey {
				b.WriteString("    input:" + yamlValue(Obj(s.In...), 6))
			}
			if s.StopIf != nil {
				b.WriteString("    stop_if:" + yamlValue(s.StopIf, 6))
			}
			if s.Deploy != nil {
				b.WriteString("    deploy:\n      deployer_name: \"sim\"\n")
				if s.Deploy.Latency != nil {
					b.WriteString("      latency_ms:" + yamlValue(s.Deploy.Latency, 8))
				}
				if s.Deploy.Mode != nil {
					b.WriteString("      mode:" + yamlValue(s.Deploy.Mode, 8))
				}
			}
			if s.Closure != nil {
				fmt.Fprintf(&b, "    closure_wait_timeout: %d\n", *s.Closure)
			}
		}
		if s.WaitFor != nil {
			b.WriteString("    wait_for:" + yamlValue(s.WaitFor, 6))
		}
		if s.Enabled != nil {
			b.WriteString("    enabled:" + yamlValue(s.Enabled, 6))
		}
	}
	b.WriteString("outputs:\n")
	for _, o := range p.Outputs {
		b.WriteString("  " + o.ID + ":" + yamlValue(o.E, 4))
	}
	if len(p.Explicit) > 0 {
		b.WriteString("outputSchema:\n")
		ids := make([]string, 0, len(p.Explicit))
		for id := range p.Explicit {
			ids = append(ids, id)
		}
		sort.Strings(ids)
		for _, id := range ids {
			fmt.Fprintf(&b, "  %s:\n    error: %v\n    schema:\n      root: Out_%s\n      objects:\n        Out_%s:\n          id: Out_%s\n          properties:\n            x:\n              type:\n                type_id: integer\n", id, p.Explicit[id], id, id, id)
		}
	}
	return b.String()
}

// Files returns the sub-workflow files (recursively) by name.
func (p *Program) Files() map[string]string {
	out := map[string]string{}
	var rec func(q *Program)
	rec = func(q *Program) {
		for name, sub := range q.Subs {
			out[name] = sub.YAML()
			rec(sub)
		}
	}
	rec(p)
	return out
}

// Clone deep-copies a program.
func (p *Program) Clone() *Program {
	b, _ := json.Marshal(p)
	var q Program
	_ = json.Unmarshal(b, &q)
	return &q
}

// Walk calls f for every expression node under e (pre-order).
func Walk(e *Expr, f func(*Expr)) {
	if e == nil {
		return
	}
	f(e)
	for _, a := range e.Args {
		Walk(a, f)
	}
	for _, o := range e.Opts {
		Walk(o.E, f)
	}
	for _, o := range e.Fields {
		Walk(o.E, f)
	}
	for _, o := range e.Items {
		Walk(o, f)
	}
}

// StepRefs lists the step ids an expression refers to (any tag).
func StepRefs(e *Expr) []string {
	seen := map[string]bool{}
	Walk(e, func(x *Expr) {
		if x.K == "ref" && len(x.Path) >= 2 && x.Path[0] == "steps" {
			seen[x.Path[1].(string)] = true
		}
	})
	out := make([]string, 0, len(seen))
	for k := range seen {
		out = append(out, k)
	}
	sort.Strings(out)
	return out
}

// Exprs returns all expressions of a step with the stage they feed.
func (s *Step) Exprs() map[string]*Expr {
	out := map[string]*Expr{}
	if s.Kind == "foreach" {
		out["items"] = s.Items
		if s.Parallelism != nil {
			out["parallelism"] = s.Parallelism
		}
	} else {
		out["input"] = Obj(s.In...)
		if s.StopIf != nil {
			out["stop_if"] = s.StopIf
		}
		if s.Deploy != nil {
			var fs []Field
			if s.Deploy.Latency != nil {
				fs = append(fs, F("latency_ms", s.Deploy.Latency))
			}
			if s.Deploy.Mode != nil {
				fs = append(fs, F("mode", s.Deploy.Mode))
			}
			out["deploy"] = Obj(fs...)
		}
	}
	if s.WaitFor != nil {
		out["wait_for"] = s.WaitFor
	}
	if s.Enabled != nil {
		out["enabled"] = s.Enabled
	}
	return out
}
