// Package world is the scripted environment of a simulated run (DESIGN.md §2.3): the `sim`
// deployer, the in-memory plugin connection with its fault plan, the scripted plugin served by the
// real ATP server, a capturing logger and the global event log.
package world

import (
	"bytes"
	"context"
	"encoding/json"
	"fmt"
	"io"
	"sort"
	"strings"
	"sync"
	"sync/atomic"
	"time"

	log "go.arcalot.io/log/v2"
	"go.flow.arcalot.io/deployer"
	"go.flow.arcalot.io/engine/zverif/simrt"
	"go.flow.arcalot.io/pluginsdk/atp"
	"go.flow.arcalot.io/pluginsdk/plugin"
	"go.flow.arcalot.io/pluginsdk/schema"
)

// Event is one entry of the global event log.
type Event struct {
	Seq   int64          `json:"seq"`         // scheduler decision number at the time of the event
	AtUS  int64          `json:"at_us"`       // simulated microseconds since run start
	G     string         `json:"g,omitempty"` // goroutine name (tie-break for equal Seq)
	Kind  string         `json:"kind"`
	Src   string         `json:"src,omitempty"`   // plugin source (sim://<id>)
	Dep   int            `json:"dep,omitempty"`   // deployment number
	Run   string         `json:"run,omitempty"`   // ATP run id (= workflow step id)
	Probe bool           `json:"probe,omitempty"` // deployment made while preparing (schema probe)
	Data  map[string]any `json:"data,omitempty"`
	idx   int
}

// Event kinds.
const (
	EvDeployBegin  = "deploy-begin"
	EvDeployOK     = "deploy-ok"
	EvDeployFail   = "deploy-fail"
	EvConnClose    = "conn-close"
	EvServerExit   = "server-exit"
	EvExecStart    = "exec-start"
	EvExecEnd      = "exec-end"
	EvCancelSignal = "cancel-signal"
	EvCtxDone      = "plugin-ctx-done"
	EvKill         = "conn-kill"
	EvBugLog       = "bug-log"
	EvClient       = "client"
)

// ProbeFault describes what goes wrong with a schema probe deployment of one plugin source.
type ProbeFault struct {
	DeployFail    bool  `json:"deploy_fail,omitempty"`
	KillAtByte    int64 `json:"kill_at_byte,omitempty"`    // >0: the connection dies once N plugin->engine bytes were delivered
	KillAfterMsgs int   `json:"kill_after_msgs,omitempty"` // >0: the connection dies right after the k-th plugin->engine message was delivered completely
	CloseErr      bool  `json:"close_err,omitempty"`
}

// RunFault describes connection-level faults for the run deployment of one plugin source.
type RunFault struct {
	KillAtByte    int64 `json:"kill_at_byte,omitempty"`
	KillAfterMsgs int   `json:"kill_after_msgs,omitempty"`
	CloseErr      bool  `json:"close_err,omitempty"`
	SchemaDrop    bool  `json:"schema_drop,omitempty"` // the deployed plugin lacks the steps (schema mismatch at start)
	// Silent: the deployed plugin never says anything (a container that is up but stuck before its
	// first message); whatever the engine reads from it blocks until the connection is closed.
	Silent bool `json:"silent,omitempty"`
}

// Plan is the fault plan of a run that is not expressed in the workflow text.
type Plan struct {
	Probe map[string]ProbeFault `json:"probe,omitempty"` // by plugin source
	Run   map[string]RunFault   `json:"run,omitempty"`   // by plugin source
}

// World is the environment of one simulated run.
type World struct {
	Sim  *simrt.Sim
	Plan Plan

	mu       sync.Mutex
	events   []Event
	deps     []*Deployment
	fired    map[string]int
	BugLogs  []string
	Logs     []string
	KeepLogs bool
}

// New creates a world.
func New(s *simrt.Sim, plan Plan) *World {
	return &World{Sim: s, Plan: plan, fired: map[string]int{}}
}

// Fired counts a fault (or a rare condition) that actually happened.
func (w *World) Fired(kind string) {
	w.mu.Lock()
	w.fired[kind]++
	w.mu.Unlock()
}

// FiredCounts returns the counters.
func (w *World) FiredCounts() map[string]int {
	w.mu.Lock()
	defer w.mu.Unlock()
	out := map[string]int{}
	for k, v := range w.fired {
		out[k] = v
	}
	return out
}

// Log appends an event stamped with the current decision number.
func (w *World) Log(e Event) {
	if w.Sim != nil {
		e.Seq = w.Sim.Seq()
		e.AtUS = int64(w.Sim.Now() / time.Microsecond)
	}
	if e.G == "" {
		e.G = simrt.CurrentName()
	}
	w.mu.Lock()
	e.idx = len(w.events)
	w.events = append(w.events, e)
	w.mu.Unlock()
}

// Events returns the event log in canonical order: by decision number, then goroutine name, then
// per-goroutine program order.
func (w *World) Events() []Event {
	w.mu.Lock()
	out := append([]Event(nil), w.events...)
	w.mu.Unlock()
	sort.SliceStable(out, func(a, b int) bool {
		if out[a].Seq != out[b].Seq {
			return out[a].Seq < out[b].Seq
		}
		if out[a].G != out[b].G {
			return out[a].G < out[b].G
		}
		return out[a].idx < out[b].idx
	})
	return out
}

// Deployments returns all deployments attempted so far.
func (w *World) Deployments() []*Deployment {
	w.mu.Lock()
	defer w.mu.Unlock()
	return append([]*Deployment(nil), w.deps...)
}

// ---------------------------------------------------------------------------------------------
// logger

type logWriter struct{ w *World }

func (l logWriter) Write(m log.Message) error {
	low := strings.ToLower(m.Message)
	if strings.HasPrefix(low, "bug:") || strings.Contains(low, "bug: ") {
		l.w.mu.Lock()
		l.w.BugLogs = append(l.w.BugLogs, m.Message)
		l.w.mu.Unlock()
	}
	if l.w.KeepLogs {
		l.w.mu.Lock()
		l.w.Logs = append(l.w.Logs, string(m.Level)+" "+m.Message)
		l.w.mu.Unlock()
	}
	return nil
}
func (l logWriter) Rotate()      {}
func (l logWriter) Close() error { return nil }

// Logger returns an engine logger that records `bug:` messages and drops the rest.
func (w *World) Logger() log.Logger {
	lvl := log.LevelWarning
	if w.KeepLogs {
		lvl = log.LevelDebug
	}
	return log.NewLogger(lvl, logWriter{w})
}

// ---------------------------------------------------------------------------------------------
// deployer

// SimConfig is the configuration of the sim deployer; the workflow may override it per step through
// the `deploy` key (expressions allowed).
type SimConfig struct {
	LatencyMS int64  `json:"latency_ms"`
	Mode      string `json:"mode"` // ok | fail | hang | slowcancel
}

// ConfigSchema is the schema of SimConfig.
var ConfigSchema = schema.NewTypedScopeSchema[*SimConfig](
	schema.NewStructMappedObjectSchema[*SimConfig](
		"SimConfig",
		map[string]*schema.PropertySchema{
			"latency_ms": schema.NewPropertySchema(
				schema.NewIntSchema(schema.PointerTo(int64(0)), nil, nil), nil, false, nil, nil, nil, schema.PointerTo("0"), nil),
			"mode": schema.NewPropertySchema(
				schema.NewStringSchema(nil, nil, nil), nil, false, nil, nil, nil, schema.PointerTo(`"ok"`), nil),
		},
	),
)

// Factory is the connector factory of deployment type "sim".
type Factory struct{ W func() *World }

// Name implements deployer.ConnectorFactory.
func (f Factory) Name() string { return "sim" }

// DeploymentType implements deployer.ConnectorFactory.
func (f Factory) DeploymentType() deployer.DeploymentType { return "sim" }

// ConfigurationSchema implements deployer.ConnectorFactory.
func (f Factory) ConfigurationSchema() *schema.TypedScopeSchema[*SimConfig] { return ConfigSchema }

// Create implements deployer.ConnectorFactory.
func (f Factory) Create(config *SimConfig, _ log.Logger) (deployer.Connector, error) {
	return &connector{cfg: *config, w: f.W}, nil
}

type connector struct {
	cfg SimConfig
	w   func() *World
}

// Deployment is one Deploy call and what became of it.
type Deployment struct {
	N      int
	Src    string
	Probe  bool
	OK     bool
	By     string // goroutine that deployed
	Closes atomic.Int32
	// SignalWritten: the engine's ATP client wrote a signal message to this deployment's connection
	// (seen in the byte stream). The SDK's server may drop a signal that overtakes the registration of
	// the step it is meant for; the engine has sent it all the same.
	SignalWritten atomic.Bool
	Exited atomic.Bool
	conn   *Conn
	w      *World
	Execs  atomic.Int32
}

func (c *connector) Deploy(ctx context.Context, src string) (deployer.Plugin, error) {
	w := c.w()
	g := simrt.CurrentG()
	probe := g == nil || !g.Engine
	simrt.EnvPoint("env:deploy", false, 0)
	w.mu.Lock()
	d := &Deployment{N: len(w.deps) + 1, Src: src, Probe: probe, w: w, By: simrt.CurrentName()}
	w.deps = append(w.deps, d)
	w.mu.Unlock()
	w.Log(Event{Kind: EvDeployBegin, Src: src, Dep: d.N, Probe: probe, Data: map[string]any{"mode": c.cfg.Mode, "latency_ms": c.cfg.LatencyMS, "by": d.By}})
	mode := c.cfg.Mode
	var pf ProbeFault
	if probe {
		pf = w.Plan.Probe[src]
		if pf.DeployFail {
			mode = "fail"
		}
	}
	if c.cfg.LatencyMS > 0 {
		if mode == "slowcancel" {
			time.Sleep(time.Duration(c.cfg.LatencyMS) * time.Millisecond)
			if ctx.Err() != nil {
				w.Fired("deploy_completes_after_cancel")
			}
		} else {
			select {
			case <-time.After(time.Duration(c.cfg.LatencyMS) * time.Millisecond):
				w.Fired("deploy_slow")
			case <-ctx.Done():
				w.Fired("cancel_during_deploy")
				simrt.EnvPoint("env:deploy-cancelled", false, 0)
				w.Log(Event{Kind: EvDeployFail, Src: src, Dep: d.N, Probe: probe, Data: map[string]any{"why": "context"}})
				return nil, fmt.Errorf("sim deployer: deployment of %s aborted (%w)", src, ctx.Err())
			}
		}
	}
	switch mode {
	case "fail":
		if probe {
			w.Fired("probe_deploy_fail")
		} else {
			w.Fired("deploy_fail")
		}
		simrt.EnvPoint("env:deploy-fail", false, 0)
		w.Log(Event{Kind: EvDeployFail, Src: src, Dep: d.N, Probe: probe, Data: map[string]any{"why": "scripted"}})
		return nil, fmt.Errorf("sim deployer: scripted deployment failure for %s", src)
	case "hang":
		<-ctx.Done()
		w.Fired("deploy_hang_until_cancel")
		simrt.EnvPoint("env:deploy-cancelled", false, 0)
		w.Log(Event{Kind: EvDeployFail, Src: src, Dep: d.N, Probe: probe, Data: map[string]any{"why": "hang-cancelled"}})
		return nil, fmt.Errorf("sim deployer: deployment of %s aborted (%w)", src, ctx.Err())
	}
	conn := newConn(w, d)
	d.conn = conn
	d.OK = true
	if probe {
		conn.s2c.failAt, conn.s2c.failAfterMsgs = pf.KillAtByte, pf.KillAfterMsgs
		conn.killOnFail = pf.KillAtByte > 0 || pf.KillAfterMsgs > 0
		conn.closeErr = pf.CloseErr
	} else if rf, ok := w.Plan.Run[src]; ok {
		conn.s2c.failAt, conn.s2c.failAfterMsgs = rf.KillAtByte, rf.KillAfterMsgs
		conn.killOnFail = rf.KillAtByte > 0 || rf.KillAfterMsgs > 0
		conn.closeErr = rf.CloseErr
		conn.schemaDrop = rf.SchemaDrop
		conn.silent = rf.Silent
	}
	conn.start()
	simrt.EnvPoint("env:deploy-ok", false, 0)
	w.Log(Event{Kind: EvDeployOK, Src: src, Dep: d.N, Probe: probe})
	return conn, nil
}

// ---------------------------------------------------------------------------------------------
// connection

type pipeBuf struct {
	mu            sync.Mutex
	buf           []byte
	closed        bool
	dead          bool
	notify        chan struct{}
	delivered     int64
	written       int64
	failAt        int64 // >0: the fault fires once this many bytes were delivered
	failAfterMsgs int   // >0: the fault fires once the k-th written message was delivered completely
	msgEnds       []int64
	writeFailAt   int64 // >0: writes fail once this many bytes were written
	onFail        func()
}

func newPipe() *pipeBuf { return &pipeBuf{notify: make(chan struct{}, 1)} }

func (p *pipeBuf) signal() {
	select {
	case p.notify <- struct{}{}:
	default:
	}
}

func (p *pipeBuf) Write(b []byte) (int, error) {
	p.mu.Lock()
	if p.closed || p.dead {
		p.mu.Unlock()
		return 0, io.ErrClosedPipe
	}
	if p.writeFailAt > 0 && p.written+int64(len(b)) > p.writeFailAt {
		p.mu.Unlock()
		return 0, fmt.Errorf("sim connection: write refused")
	}
	p.buf = append(p.buf, b...)
	p.written += int64(len(b))
	p.msgEnds = append(p.msgEnds, p.written)
	p.mu.Unlock()
	p.signal()
	return len(b), nil
}

// faultDue reports (with p.mu held) whether the scripted fault point has been reached.
func (p *pipeBuf) faultDue() bool {
	if p.failAt > 0 && p.delivered >= p.failAt {
		return true
	}
	if p.failAfterMsgs > 0 && len(p.msgEnds) >= p.failAfterMsgs && p.delivered >= p.msgEnds[p.failAfterMsgs-1] {
		return true
	}
	return false
}

func (p *pipeBuf) Read(b []byte) (int, error) {
	for {
		p.mu.Lock()
		if p.dead {
			p.mu.Unlock()
			p.signal()
			return 0, io.ErrUnexpectedEOF
		}
		if p.faultDue() {
			f := p.onFail
			p.onFail = nil
			p.mu.Unlock()
			if f != nil {
				f()
			}
			p.signal()
			return 0, io.ErrUnexpectedEOF
		}
		if len(p.buf) > 0 {
			n := len(b)
			if n > len(p.buf) {
				n = len(p.buf)
			}
			if p.failAt > 0 && p.delivered+int64(n) > p.failAt {
				n = int(p.failAt - p.delivered)
			}
			copy(b, p.buf[:n])
			p.buf = p.buf[n:]
			p.delivered += int64(n)
			more := len(p.buf) > 0
			// the connection dies as soon as the fault point is reached, not at the next read
			var f func()
			if p.faultDue() {
				f = p.onFail
				p.onFail = nil
			}
			p.mu.Unlock()
			if f != nil {
				f()
			}
			if more {
				p.signal()
			}
			return n, nil
		}
		if p.closed {
			p.mu.Unlock()
			p.signal()
			return 0, io.EOF
		}
		p.mu.Unlock()
		<-p.notify
	}
}

func (p *pipeBuf) Close() error {
	p.mu.Lock()
	p.closed = true
	p.mu.Unlock()
	p.signal()
	return nil
}

func (p *pipeBuf) kill() {
	p.mu.Lock()
	p.dead = true
	p.mu.Unlock()
	p.signal()
}

// Conn is the engine's end of a plugin connection (deployer.Plugin).
type Conn struct {
	w          *World
	d          *Deployment
	c2s, s2c   *pipeBuf
	ctx        context.Context
	cancel     context.CancelFunc
	done       chan struct{}
	closeErr   bool
	killOnFail bool
	schemaDrop bool
	silent     bool
	closeOnce  sync.Once
	// sessionOver: the ATP server session is ending; a plugin step that errors or panics now would
	// crash the (real) plugin SDK, i.e. this process, so scripted misbehaviour is suppressed then.
	sessionOver atomic.Bool
}

func (c *Conn) ending() bool {
	if c.sessionOver.Load() || c.ctx.Err() != nil {
		return true
	}
	c.c2s.mu.Lock()
	defer c.c2s.mu.Unlock()
	return c.c2s.closed || c.c2s.dead
}

func newConn(w *World, d *Deployment) *Conn {
	ctx, cancel := context.WithCancel(context.Background())
	c := &Conn{w: w, d: d, c2s: newPipe(), s2c: newPipe(), ctx: ctx, cancel: cancel, done: make(chan struct{})}
	return c
}

// Read implements io.Reader (plugin stdout).
func (c *Conn) Read(b []byte) (int, error) { return c.s2c.Read(b) }

// Write implements io.Writer (plugin stdin).
func (c *Conn) Write(b []byte) (int, error) {
	if bytes.Contains(b, []byte("signal_id")) {
		c.d.SignalWritten.Store(true)
	}
	return c.c2s.Write(b)
}

// ID implements deployer.Plugin.
func (c *Conn) ID() string { return fmt.Sprintf("%s#%d", c.d.Src, c.d.N) }

// Kill makes the connection die in both directions, as when the container disappears.
func (c *Conn) Kill(why string) {
	c.w.Log(Event{Kind: EvKill, Src: c.d.Src, Dep: c.d.N, Probe: c.d.Probe, Data: map[string]any{"why": why}})
	c.sessionOver.Store(true)
	c.s2c.kill()
	c.c2s.kill()
	c.cancel()
}

// Close implements io.Closer: it shuts the plugin down and waits for it to exit.
func (c *Conn) Close() error {
	n := c.d.Closes.Add(1)
	c.sessionOver.Store(true)
	c.w.Log(Event{Kind: EvConnClose, Src: c.d.Src, Dep: c.d.N, Probe: c.d.Probe, Data: map[string]any{"nth": int(n), "signal_written": c.d.SignalWritten.Load()}})
	c.cancel()
	c.s2c.Close()
	c.c2s.Close()
	<-c.done
	if c.closeErr && n == 1 {
		c.w.Fired("conn_close_error")
		return fmt.Errorf("sim connection: scripted close error")
	}
	return nil
}

type readCloser struct {
	p *pipeBuf
	c *Conn
}

func (r readCloser) Read(b []byte) (int, error) { return r.p.Read(b) }
func (r readCloser) Close() error {
	// the ATP server closes its stdin when the session ends (client done or fatal error)
	r.c.sessionOver.Store(true)
	return r.p.Close()
}

type writeCloser struct{ p *pipeBuf }

func (r writeCloser) Write(b []byte) (int, error) { return r.p.Write(b) }
func (r writeCloser) Close() error                { return r.p.Close() }

func (c *Conn) start() {
	if c.killOnFail {
		c.s2c.onFail = func() {
			c.w.Fired("conn_eof_mid_stream")
			c.Kill("scripted EOF in plugin->engine stream")
		}
	}
	if c.silent {
		c.w.Fired("plugin_silent")
		go func() {
			defer close(c.done)
			<-c.ctx.Done() // closed (or killed) by the engine
			c.d.Exited.Store(true)
			c.w.Log(Event{Kind: EvServerExit, G: fmt.Sprintf("server/%d", c.d.N), Src: c.d.Src, Dep: c.d.N, Probe: c.d.Probe})
			if s := c.w.Sim; s != nil {
				s.Notify()
			}
		}()
		return
	}
	sch := c.w.pluginSchema(c)
	go func() {
		defer close(c.done)
		atp.RunATPServer(c.ctx, readCloser{c.c2s, c}, writeCloser{c.s2c}, sch)
		c.d.Exited.Store(true)
		c.w.Log(Event{Kind: EvServerExit, G: fmt.Sprintf("server/%d", c.d.N), Src: c.d.Src, Dep: c.d.N, Probe: c.d.Probe})
		if s := c.w.Sim; s != nil {
			s.Notify()
		}
	}()
}

// ---------------------------------------------------------------------------------------------
// scripted plugin

// Input is the input of the scripted plugin's steps. The behaviour of a step execution is a pure
// function of it, so the workflow text decides every outcome.
type Input struct {
	A        int64   `json:"a"`
	S        string  `json:"s"`
	L        []int64 `json:"l"`
	O        *string `json:"o"`
	Mode     string  `json:"mode"`      // ok | err | alt | crash | panic | hang | badout
	Dur      int64   `json:"dur"`       // simulated ms before the result
	OnCancel string  `json:"on_cancel"` // finish | ignore | crash
}

// Success is the success output.
type Success struct {
	A     int64   `json:"a"`
	S     string  `json:"s"`
	L     []int64 `json:"l"`
	Nonce string  `json:"nonce"`
	// Its are two objects a loop can run over: {v: a}, {v: a+1} of the input's a.
	Its []ItemOut `json:"its"`
}

// ItemOut is an element of Success.Its; it has the shape of a loop item.
type ItemOut struct {
	V int64 `json:"v"`
}

// ErrorOut is the error output.
type ErrorOut struct {
	Reason string `json:"reason"`
}

// AltOut is the alternative (non-error) output.
type AltOut struct {
	A int64 `json:"a"`
}

// CancelledOut is returned when the cancel signal is honoured.
type CancelledOut struct {
	Msg string `json:"msg"`
}

func prop(t schema.Type, required bool, def *string) *schema.PropertySchema {
	return schema.NewPropertySchema(t, nil, required, nil, nil, nil, def, nil)
}

var inputSchema = schema.NewScopeSchema(
	schema.NewStructMappedObjectSchema[Input]("SimInput", map[string]*schema.PropertySchema{
		"a":         prop(schema.NewIntSchema(nil, nil, nil), true, nil),
		"s":         prop(schema.NewStringSchema(nil, nil, nil), false, schema.PointerTo(`""`)),
		"l":         prop(schema.NewListSchema(schema.NewIntSchema(nil, nil, nil), nil, nil), false, nil),
		"o":         prop(schema.NewStringSchema(nil, nil, nil), false, nil),
		"mode":      prop(schema.NewStringSchema(nil, nil, nil), false, schema.PointerTo(`"ok"`)),
		"dur":       prop(schema.NewIntSchema(schema.PointerTo(int64(0)), nil, nil), false, schema.PointerTo("0")),
		"on_cancel": prop(schema.NewStringSchema(nil, nil, nil), false, schema.PointerTo(`"finish"`)),
	}),
)

var successSchema = schema.NewScopeSchema(
	schema.NewStructMappedObjectSchema[Success]("SimSuccess", map[string]*schema.PropertySchema{
		"a":     prop(schema.NewIntSchema(nil, nil, nil), true, nil),
		"s":     prop(schema.NewStringSchema(nil, nil, nil), true, nil),
		"l":     prop(schema.NewListSchema(schema.NewIntSchema(nil, nil, nil), nil, nil), false, nil),
		"nonce": prop(schema.NewStringSchema(nil, nil, nil), true, nil),
		"its": prop(schema.NewListSchema(schema.NewRefSchema("Item", nil), nil, nil), true, nil),
	}),
	schema.NewStructMappedObjectSchema[ItemOut]("Item", map[string]*schema.PropertySchema{
		"v": prop(schema.NewIntSchema(nil, nil, nil), true, nil),
	}),
)
var errorSchema = schema.NewScopeSchema(
	schema.NewStructMappedObjectSchema[ErrorOut]("SimError", map[string]*schema.PropertySchema{
		"reason": prop(schema.NewStringSchema(nil, nil, nil), true, nil),
	}),
)
var altSchema = schema.NewScopeSchema(
	schema.NewStructMappedObjectSchema[AltOut]("SimAlt", map[string]*schema.PropertySchema{
		"a": prop(schema.NewIntSchema(nil, nil, nil), true, nil),
	}),
)
var cancelledSchema = schema.NewScopeSchema(
	schema.NewStructMappedObjectSchema[CancelledOut]("SimCancelled", map[string]*schema.PropertySchema{
		"msg": prop(schema.NewStringSchema(nil, nil, nil), true, nil),
	}),
)

func outputs() map[string]*schema.StepOutputSchema {
	return map[string]*schema.StepOutputSchema{
		"success":   schema.NewStepOutputSchema(successSchema, nil, false),
		"error":     schema.NewStepOutputSchema(errorSchema, nil, true),
		"alt":       schema.NewStepOutputSchema(altSchema, nil, false),
		"cancelled": schema.NewStepOutputSchema(cancelledSchema, nil, false),
	}
}

type stepData struct {
	cancel chan struct{}
}

// Nonce is the unique value a successful execution attaches to its output.
func Nonce(src string, in Input) string {
	b, _ := json.Marshal(in)
	return fmt.Sprintf("%s|%s", src, b)
}

// Compute is what a successful execution returns for an input (the reference model uses it too).
func Compute(src string, in Input) Success {
	out := Success{A: in.A*2 + 1, S: "<" + in.S + ">", Nonce: Nonce(src, in), L: []int64{}, Its: []ItemOut{{V: in.A}, {V: in.A + 1}}}
	if in.O != nil {
		out.S += "+" + *in.O
	}
	for _, x := range in.L {
		out.L = append(out.L, x+1)
	}
	return out
}

var execCounter atomic.Int64

func (w *World) handler(c *Conn, withSignal bool) func(ctx context.Context, sd *stepData, in Input) (string, any) {
	return func(ctx context.Context, sd *stepData, in Input) (string, any) {
		n := c.d.Execs.Add(1)
		defer simrt.Enter(fmt.Sprintf("plugin/%d/%d", c.d.N, n))()
		asMap := map[string]any{"a": in.A, "s": in.S, "mode": in.Mode, "dur": in.Dur, "on_cancel": in.OnCancel}
		if in.L != nil {
			l := make([]any, len(in.L))
			for i, x := range in.L {
				l[i] = x
			}
			asMap["l"] = l
		}
		if in.O != nil {
			asMap["o"] = *in.O
		}
		simrt.EnvPoint("env:exec-start", false, 0)
		w.Log(Event{Kind: EvExecStart, Src: c.d.Src, Dep: c.d.N, Data: map[string]any{"input": asMap, "signal": withSignal}})
		end := func(id string, data any) (string, any) {
			simrt.EnvPoint("env:exec-end", false, 0)
			b, _ := json.Marshal(data)
			var m any
			_ = json.Unmarshal(b, &m)
			w.Log(Event{Kind: EvExecEnd, Src: c.d.Src, Dep: c.d.N, Data: map[string]any{"output": id, "data": m}})
			return id, data
		}
		var timer <-chan time.Time
		if in.Mode != "hang" {
			timer = time.After(time.Duration(in.Dur) * time.Millisecond)
		}
		var cancelCh <-chan struct{}
		if sd != nil {
			cancelCh = sd.cancel
		}
		timerFired, gotSignal := false, false
		for {
			// Wait for anything to happen, then let everything that happens at the same simulated instant
			// settle (the park below returns only after the scheduler saw quiescence) and act on the
			// conditions in a fixed order: shutdown, cancel signal, own timer. A plain select would pick
			// at random among cases that are ready together, which a replay could not reproduce.
			select {
			case <-timer:
				timer, timerFired = nil, true
			case <-cancelCh:
				gotSignal = true
			case <-ctx.Done():
			}
			simrt.EnvPoint("env:plugin-wake", false, 0)
			select {
			case <-cancelCh:
				gotSignal = true
			default:
			}
			if timer != nil {
				select {
				case <-timer:
					timer, timerFired = nil, true
				default:
				}
			}
			if gotSignal {
				// the signal did arrive, whatever else is going on
				w.Log(Event{Kind: EvCancelSignal, Src: c.d.Src, Dep: c.d.N})
			}
			if ctx.Err() != nil {
				// the container is being shut down
				w.Log(Event{Kind: EvCtxDone, Src: c.d.Src, Dep: c.d.N})
				return "cancelled", CancelledOut{Msg: "terminated"}
			}
			if gotSignal {
				gotSignal = false
				switch in.OnCancel {
				case "ignore":
					w.Fired("plugin_ignores_cancel")
				case "crash":
					w.Fired("plugin_crash_on_cancel")
					c.Kill("scripted crash on cancel")
					w.Log(Event{Kind: EvExecEnd, Src: c.d.Src, Dep: c.d.N, Data: map[string]any{"output": "", "crash": true}})
					return "error", ErrorOut{Reason: "crashed"}
				default:
					return end("cancelled", CancelledOut{Msg: "cancelled by signal"})
				}
			}
			if !timerFired {
				continue
			}
			timerFired = false
			mode := in.Mode
			if (mode == "panic" || mode == "badout") && c.ending() {
				w.Fired("misbehaviour_suppressed_session_over")
				w.Log(Event{Kind: EvCtxDone, Src: c.d.Src, Dep: c.d.N})
				return "cancelled", CancelledOut{Msg: "terminated"}
			}
			switch mode {
			case "err":
				w.Fired("plugin_error_output")
				return end("error", ErrorOut{Reason: "scripted error a=" + fmt.Sprint(in.A)})
			case "alt":
				w.Fired("plugin_alt_output")
				return end("alt", AltOut{A: in.A})
			case "crash":
				w.Fired("plugin_crash_before_result")
				c.Kill("scripted crash")
				w.Log(Event{Kind: EvExecEnd, Src: c.d.Src, Dep: c.d.N, Data: map[string]any{"output": "", "crash": true}})
				return "error", ErrorOut{Reason: "crashed"}
			case "panic":
				w.Fired("plugin_panic")
				w.Log(Event{Kind: EvExecEnd, Src: c.d.Src, Dep: c.d.N, Data: map[string]any{"output": "", "panic": true}})
				panic("scripted plugin panic")
			case "badout":
				w.Fired("plugin_bad_output")
				w.Log(Event{Kind: EvExecEnd, Src: c.d.Src, Dep: c.d.N, Data: map[string]any{"output": "", "badout": true}})
				return "success", AltOut{A: 1}
			default:
				return end("success", Compute(c.d.Src, in))
			}
		}
	}
}

func (w *World) pluginSchema(c *Conn) *schema.CallableSchema {
	if c.schemaDrop {
		w.Fired("start_schema_mismatch")
		h := w.handler(c, false)
		return schema.NewCallableSchema(
			schema.NewCallableStep[Input]("other", inputSchema, outputs(), nil,
				func(ctx context.Context, in Input) (string, any) { return h(ctx, nil, in) }),
		)
	}
	hs := w.handler(c, true)
	hn := w.handler(c, false)
	return schema.NewCallableSchema(
		schema.NewCallableStepWithSignals[*stepData, Input](
			"work", inputSchema, outputs(),
			map[string]schema.CallableSignal{
				plugin.CancellationSignalSchema.ID(): schema.NewCallableSignalFromSchema(plugin.CancellationSignalSchema,
					func(_ context.Context, sd *stepData, _ plugin.CancelInput) {
						select {
						case sd.cancel <- struct{}{}:
						default:
						}
					}),
			},
			map[string]*schema.SignalSchema{},
			nil,
			func() *stepData { return &stepData{cancel: make(chan struct{}, 3)} },
			hs,
		),
		schema.NewCallableStep[Input]("work_nosignal", inputSchema, outputs(), nil,
			func(ctx context.Context, in Input) (string, any) { return hn(ctx, nil, in) }),
		// one regular output, one error output, no signals
		schema.NewCallableStep[Input]("work_simple", inputSchema, simpleOutputs(), nil,
			func(ctx context.Context, in Input) (string, any) {
				id, data := hn(ctx, nil, in)
				if id == "cancelled" {
					// (only when the container is being shut down) this step has no such output
					return "error", ErrorOut{Reason: "terminated"}
				}
				return id, data
			}),
	)
}

func simpleOutputs() map[string]*schema.StepOutputSchema {
	return map[string]*schema.StepOutputSchema{
		"success": schema.NewStepOutputSchema(successSchema, nil, false),
		"error":   schema.NewStepOutputSchema(errorSchema, nil, true),
	}
}

// ForceShutdown kills the deployment's connection without logging (bubble tear-down only).
func (d *Deployment) ForceShutdown() {
	if d.conn != nil {
		d.conn.s2c.kill()
		d.conn.c2s.kill()
		d.conn.cancel()
	}
}
