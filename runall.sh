#!/bin/bash
# Runs the quick tier of every check listed in MANIFEST.json and prints one summary line per check.
cd /verif
for p in $(python3 -c "import json;print(' '.join(c['property_id'] for c in json.load(open('MANIFEST.json'))['checks']))") "$@"; do
  out=$(./check $p ${TIER:-quick} 2>&1); rc=$?
  echo "$p rc=$rc $(echo "$out" | grep '^check ' | cut -c1-160)"
  echo "$out" | grep -A2 '^VIOLATION' | cut -c1-400
  if [ $rc -eq 2 ]; then echo "$out" | grep -v 'error while sending' | tail -5 | cut -c1-300; fi
done
