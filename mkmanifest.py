#!/usr/bin/env python3
"""Regenerates MANIFEST.json from the table below (keeps the manifest consistent with what is built)."""
import json
props=[json.loads(l) for l in open('/verif/properties.jsonl')]
CLAIMED = {
 "C01": ("DESIGN §6 C01", "seeded simulation of generated workflows (chains, fan-in up to 30 failing steps, error-path-only outputs, unrelated never-ending steps, stop conditions) under adversarial schedules; oracle: Execute returns exactly one of (declared output, error), never hangs in the fair suffix, and returns within grace + closure timeouts once no output is producible"),
 "C02": ("DESIGN §6 C02", "seeded simulation with producers slowed/starved and consumers eager; oracle over the plugin-side event log: every plugin start and every run deployment follows (by decision number) the events its expressions need, and the received input / deploy configuration equals the reference evaluation over what the producers really emitted"),
 "C03": ("DESIGN §6 C03", "seeded simulation of workflows with 1-3 outputs on success, error-output and engine-generated paths; oracle: returned id is in the reference model's producible set with matching data, an error only if nothing is producible or a run-time evaluation fault is reachable"),
 "C04": ("DESIGN §6 C04", "seeded simulation with a failing / crashing / deploy-failing / disabled step at generated positions; oracle over the observed world: plugin code starts only if everything its input, wait_for and enabled refer to had been produced before and enabled evaluates to true"),
 "C07": ("DESIGN §6 C07", "seeded simulation of accepted workflows whose expressions fail only at run time (division by zero, bad index, failing conversion, omitted optional field) and of misbehaving plugins (panic, crash, undeclared data); oracle: no engine or caller goroutine panics (panics are captured in-process with goroutine name and stack)"),
 "C08": ("DESIGN §6 C08", "seeded simulation of workflows that reference every kind of engine-generated stage output with the fault that produces it; oracle: no `bug:` error or log, the returned output validates against the declared output schema, and an accepted workflow never fails evaluation for a type reason the model does not predict"),
 "C09": ("DESIGN §6 C09", "site-targeted starvation, PCT, random and bounded-preemption schedules with simulated-time jumps over small fixed-meaning workflows; oracle: the result equals the reference result, in particular no spurious 'no more executable steps'"),
 "C05": ("DESIGN §6 C05", "seeded simulation with every fault kind (deploy failure/hang, connection death at any byte, schema mismatch, close errors, plugin crash/panic), schema-probe faults during Prepare, and caller cancellation at any decision; oracle at the instant each call returns: every successful deployment of the call has been closed, no engine goroutine of the call is still alive, none remains at the end"),
 "C06": ("DESIGN §6 C06", "the caller's cancellation is an environment action released at a scheduler-chosen decision (before deploy, during deploy, waiting for input, running, finishing); plugins honour / ignore / lack the cancel signal, closure timeouts 0/10/200/5000 ms; oracle: Execute returns within 5 s + closure timeouts + 1 s of simulated time in the fair suffix, every plugin executing at cancellation is signalled or shut down and its deployment closed before Execute returns, and a returned output is backed by values genuinely produced in the run"),
 "C14": ("DESIGN §6 C14", "one Prepare then 2-4 Execute calls by client goroutines, sequential, overlapped and mixed, with different inputs, some cancelled; oracle: every non-cancelled run returns its own reference result and every plugin input equals the evaluation over that run's own data (each run carries its own tag and number)"),
 "C15": ("DESIGN §6 C15", "workflows with !wait-optional, !soft-optional, !oneof and !ordisabled in step inputs, wait_for and outputs (nested in lists/maps), sources succeeding / failing / disabled / never finishing, under adversarial completion orders; oracle: reference-model evaluation of the tags (presence, value, discriminator), a wait-optional consumer starts only after its source was produced if it is produced at all, a soft-optional source never delays its consumer"),
 "C13": ("DESIGN §6 C13", "a foreach step over 0-12 (sometimes 60) items with parallelism 1..n+2 (literal, expression, default), per-item outcome and duration so items finish out of order and some fail or end in a declared non-success output; oracle: item runs in progress (open deployments of the body) never exceed parallelism, the body runs once per item with that item, and the reported success list / failure report equals the reference model's (order, length, exact failing indexes, data of the others)"),
 "C19": ("DESIGN §6 C19", "valid and invalid input documents (missing required, wrong type, unknown key, bad nested object / list item, string-encoded numbers, omitted defaults) for workflows whose steps and outputs read many input fields; oracle: invalid => Execute returns an error, zero run deployments, no engine goroutine; valid => not refused, and every plugin input and the output equal the reference normalisation (typed, defaults filled); thin simulation content (deployment counter, order independence), claimed at exploration level"),
 "C12": ("DESIGN §6 C12", "one plugin RunningStep driven directly through the provider API by 1-3 environment clients (provide deploy/enabling/starting/cancelled input in any order, duplicates, Close, ForceClose, State, CurrentStage at scheduler-chosen moments and overlaps) while the world fails or delays the deployment, returns / crashes / hangs / panics, mismatches the schema or kills the connection; oracle: the notification history is accepted by a lifecycle automaton stated from the property (continuity, each stage finished at most once and never also impossible, declared outputs only, impossible stages never entered, exactly one completion, State()=finished afterwards), no call hangs, no notification begins after the first Close/ForceClose returned, and the provide/close call history is linearizable (porcupine) against 'first provide per stage accepted, later ones refused'"),
 "C10": ("DESIGN §6 C10", "generated programs (plain, tagged, loops, stop conditions) are prepared under seeded map-iteration orders (the only nondeterminism Prepare has); structural oracle (no schedule in it, labelled as such): for every consumer node the dependencies read from ExecutableWorkflow.DAG(), followed through dependency-group nodes and classified (required / one-of / wait-optional / soft-optional), equal the set derived from the IR, lifecycle edges equal the providers' NextStages, nothing else; single-point corruptions (dangling step/stage/output/input field, wrong literal type, missing required input, unknown key, self-cycle, back-edge) are rejected with zero run deployments and every schema probe closed. The behavioural half (starved producers, unrelated never-ending step) is exercised by C02 and C01"),
 "C16": ("DESIGN §6 C16", "each generated program is prepared 3-6 times in one simulated run under different seeded map-iteration orders (which the native runtime cannot replay), with textual permutations of steps / outputs / input fields and a consistent renaming of all steps; oracle: same verdict, and after undoing the renaming and canonicalising generated ids the same dependency graph (nodes, classified edges), output schemas (self-serialised) and namespaces"),
 "C20": ("DESIGN §6 C20", "generated workflow trees (loops nested up to depth 3, sub-workflows in sub-directories, shared sub-workflow files, outputs named success / error / fallback / other, explicit output schemas with either error flag) are written to a temporary directory and run through engine.New -> RunWorkflow and Parse+Run with the deployer registry replaced by the simulated one, from absolute and relative context directories and different working directories, under seeded file-map orders and schedules, with missing / unreadable sub-workflow files; oracle: same id and data as Prepare+Execute of the same text and as the reference model, error flag <=> declared (or, if inferred, named) error output, file faults give an error, never a panic or hang"),
 "C17": ("DESIGN §6 C17", "R-mode: the generators of C14/C05/C13/C06/C12 (overlapping runs, 1-3 overlapping preparations, cancellation and close at any time, loops, direct provider histories) are executed un-serialised in a -race build inside synctest bubbles at GOMAXPROCS 16 and 4 with seeded Gosched perturbation at the instrumented sync points; oracle: the Go race detector; a report is a violation when one of its stacks contains an engine frame; reports are identified by the pair of (access function <- first engine function)"),
}
NA = {
 "C11": "pure totality claim over byte strings: no schedule, clock, fault or interleaving in it (input fuzzing is a different technique); see DESIGN §7",
 "C18": "pure functions of their arguments: nothing for a simulator to schedule or fail; see DESIGN §7",
}
PENDING = "check not built yet in this session (work in progress; see DESIGN §12)"
checks=[]
na=[]
for p in props:
    pid=p["id"]
    if pid in CLAIMED:
        ref,text=CLAIMED[pid]
        checks.append({
            "property_id":pid,
            "quick_cmd":"./check %s quick"%pid,
            "thorough_cmd":"./check %s thorough"%pid,
            "evidence_file":"/verif/evidence/%s.json"%pid,
            "replay_cmd_template":"./check replay {path}",
            "engine":"simcheck",
            "level_claimed":{"category":"exploration","text":text,"design_ref":ref},
            "level_note":"sampling, not enumeration; trusted: the reference model (sim/ref), the instrumenter and scheduler (instr, sim/simrt), testing/synctest of go1.26.8; dependency code (ATP, CBOR, dgraph, expressions) runs real but un-instrumented; genuine engine defects that are recorded rather than repaired are listed in known_findings.json and printed as KNOWN-FINDING lines",
            "technique":"deterministic simulation with fault injection (seeded scheduler over an instrumented build, fake clock, scripted deployer/plugin/connection, reference-model oracle, rapid shrinking + schedule minimisation)",
        })
    else:
        na.append({"property_id":pid,"reason":NA.get(pid,PENDING)})
m={"version":1,
 "setup_cmd":"./check setup",
 "hooks":{"guard":"none (build-time overlay: ./build.sh instruments a scratch copy of the engine sources and passes it to the go tool with -overlay; /repo carries no hooks)",
          "enable":"./build.sh <binary> (go1.26.8 test -c -overlay <scratch>/overlay.json); nothing to enable inside /repo",
          "baseline_off_cmd":"cd /repo && go test -mod=mod -json -vet=off -count=1 -timeout 25m ./...",
          "source_commits":[],"add_only":True},
 "engines":[{"name":"simcheck","path":"/verif/sim","serves_properties":sorted(CLAIMED),"kind_free_text":"deterministic simulation of the real engine in one testing/synctest bubble per run: type-directed overlay instrumentation (instr/), seeded scheduler + fake clock (sim/simrt), scripted deployer / connection / plugin behind the real ATP client and server (sim/world), program IR + rapid generators (sim/ir), reference model (sim/ref), oracles and worker (sim/check), driver (check)"}],
 "checks":checks,
 "notes":"fix: commits in /repo repair genuine defects found by these checks (see known_findings.json 'fixed' and DESIGN.md §9); known findings are printed as KNOWN-FINDING lines and do not fail a check",
 "not_applicable":na}
json.dump(m,open('/verif/MANIFEST.json','w'),indent=1)
print(len(checks),"checks",len(na),"not claimed")
