// Command instr is the type-directed overlay instrumenter (DESIGN.md §2.1).
//
// It loads every non-test package of the engine module from the repository working tree with full
// type information, computes *text edits* from the typed AST (it never re-prints an AST), writes the
// rewritten copies of the files it touched to an output directory and emits an overlay.json that the
// go tool accepts with -overlay. /repo itself is never modified.
//
// Rewrites (site id = path relative to the repo root + ":line:col"):
//
//	T1  x.Lock()/x.Unlock() on sync.Mutex            -> simrt.Lock(site,&x) / simrt.Unlock(site,&x)
//	T2  go f(a,b) / go func(){...}()                 -> simrt.Go(site, func(){...})
//	T3  select {...}                                 -> switch simrt.Select(site, hasDefault, cases...) {...}
//	T4  bare channel ops, close, atomics, WaitGroup.Wait, CancelFunc calls -> simrt.Yield(site) before
//	T5  for k,v := range map                         -> seeded iterator
//	T6  reflect.Value.MapKeys()                      -> simrt.MapKeys(site, v)
//	T7  os.ReadFile in package loadfile              -> simrt.ReadFile(site, p)
//
// Exit status: 0 ok, 2 on any failure (a failure here is never a property violation).
package main

import (
	"encoding/json"
	"flag"
	"fmt"
	"go/ast"
	"go/format"
	"go/token"
	"go/types"
	"os"
	"path/filepath"
	"sort"
	"strings"

	"golang.org/x/tools/go/packages"
)

var (
	repoDir   = flag.String("repo", "/repo", "repository working tree")
	outDir    = flag.String("out", "", "output directory for rewritten files and overlay.json")
	simrtPath = flag.String("simrt", "go.flow.arcalot.io/engine/zverif/simrt", "import path of the runtime")
	modPath   = flag.String("module", "go.flow.arcalot.io/engine", "module to instrument")
)

type edit struct {
	start, end int // byte offsets; start==end is an insertion
	text       string
	prio       int
}

type siteRec struct {
	Kind string `json:"kind"`
	Site string `json:"site"`
	Func string `json:"func,omitempty"`
}

type rewriter struct {
	pkg    *packages.Package
	fset   *token.FileSet
	file   *token.File
	src    []byte
	edits  []edit
	tmp    int
	counts map[string]int
	sites  *[]siteRec
	root   string
	funcs  []string // stack of enclosing function names
}

func (r *rewriter) off(p token.Pos) int    { return r.file.Offset(p) }
func (r *rewriter) text(n ast.Node) string { return string(r.src[r.off(n.Pos()):r.off(n.End())]) }
func (r *rewriter) replace(s, e token.Pos, t string) {
	r.edits = append(r.edits, edit{r.off(s), r.off(e), t, 0})
}
func (r *rewriter) insert(p token.Pos, t string, prio int) {
	r.edits = append(r.edits, edit{r.off(p), r.off(p), t, prio})
}
func (r *rewriter) site(n ast.Node, kind string) string {
	p := r.fset.Position(n.Pos())
	s := fmt.Sprintf("%s:%d:%d", strings.TrimPrefix(p.Filename, r.root+"/"), p.Line, p.Column)
	fn := ""
	if len(r.funcs) > 0 {
		fn = r.funcs[len(r.funcs)-1]
	}
	*r.sites = append(*r.sites, siteRec{kind, s, fn})
	r.counts[kind]++
	return fmt.Sprintf("%q", s)
}
func (r *rewriter) fresh(prefix string) string {
	r.tmp++
	return fmt.Sprintf("_sim%s%d", prefix, r.tmp)
}
func (r *rewriter) typeOf(e ast.Expr) types.Type { return r.pkg.TypesInfo.TypeOf(e) }

func isNamed(t types.Type, pkg, name string) bool {
	if p, ok := t.(*types.Pointer); ok {
		t = p.Elem()
	}
	n, ok := t.(*types.Named)
	if !ok || n.Obj().Pkg() == nil {
		return false
	}
	return n.Obj().Pkg().Path() == pkg && n.Obj().Name() == name
}

func (r *rewriter) lockCall(c *ast.CallExpr) bool {
	se, ok := c.Fun.(*ast.SelectorExpr)
	if !ok || len(c.Args) != 0 {
		return false
	}
	t := r.typeOf(se.X)
	if t == nil {
		return false
	}
	if isNamed(t, "sync", "RWMutex") {
		fail("%s: sync.RWMutex is not modelled by the simulator", r.fset.Position(c.Pos()))
	}
	if !isNamed(t, "sync", "Mutex") {
		return false
	}
	switch se.Sel.Name {
	case "Lock", "Unlock":
	case "TryLock":
		fail("%s: sync.Mutex.TryLock is not modelled by the simulator", r.fset.Position(c.Pos()))
	default:
		return false
	}
	arg := r.text(se.X)
	if _, isPtr := t.(*types.Pointer); !isPtr {
		arg = "&" + arg
	}
	r.replace(c.Pos(), c.End(), fmt.Sprintf("simrt.%s(%s, %s)", se.Sel.Name, r.site(c, strings.ToLower(se.Sel.Name)), arg))
	return true
}

// yieldCall reports whether c is a call that communicates with other goroutines without being a
// lock or a channel operation: atomics, WaitGroup.Wait, a context.CancelFunc, close(ch).
func (r *rewriter) yieldCall(c *ast.CallExpr) bool {
	if se, ok := c.Fun.(*ast.SelectorExpr); ok {
		if t := r.typeOf(se.X); t != nil {
			if p, ok := t.(*types.Pointer); ok {
				t = p.Elem()
			}
			if n, ok := t.(*types.Named); ok && n.Obj().Pkg() != nil {
				if n.Obj().Pkg().Path() == "sync/atomic" {
					return true
				}
				if n.Obj().Pkg().Path() == "sync" && n.Obj().Name() == "WaitGroup" && se.Sel.Name == "Wait" {
					return true
				}
				if n.Obj().Pkg().Path() == "sync" && n.Obj().Name() == "Cond" {
					fail("%s: sync.Cond is not modelled by the simulator", r.fset.Position(c.Pos()))
				}
			}
		}
		// package-level atomic functions: atomic.AddInt32(...)
		if id, ok := se.X.(*ast.Ident); ok {
			if pn, ok := r.pkg.TypesInfo.Uses[id].(*types.PkgName); ok && pn.Imported().Path() == "sync/atomic" {
				return true
			}
		}
	}
	if ft := r.typeOf(c.Fun); ft != nil && isNamed(ft, "context", "CancelFunc") {
		return true
	}
	if id, ok := c.Fun.(*ast.Ident); ok && id.Name == "close" && len(c.Args) == 1 {
		if t := r.typeOf(c.Args[0]); t != nil {
			if _, isChan := t.Underlying().(*types.Chan); isChan {
				return true
			}
		}
	}
	return false
}

// exprNeedsYield reports the first communication inside e (not descending into closures).
func (r *rewriter) exprNeedsYield(e ast.Node) ast.Node {
	var found ast.Node
	if e == nil {
		return nil
	}
	ast.Inspect(e, func(n ast.Node) bool {
		if found != nil {
			return false
		}
		switch x := n.(type) {
		case *ast.FuncLit:
			return false
		case *ast.UnaryExpr:
			if x.Op == token.ARROW {
				found = x
			}
		case *ast.CallExpr:
			if r.yieldCall(x) {
				found = x
			}
		}
		return true
	})
	return found
}

// noteState is rule T8: after an assignment to a struct field of the engine's RunningStepState type
// (the state the fallback deadlock detector reads), tell the runtime which value the goroutine has
// just written, so that a snapshot can say what a held-up step goroutine last claimed about itself.
func (r *rewriter) noteState(s ast.Stmt) {
	as, ok := s.(*ast.AssignStmt)
	if !ok || as.Tok != token.ASSIGN || len(as.Lhs) != 1 || len(as.Rhs) != 1 {
		return
	}
	se, ok := as.Lhs[0].(*ast.SelectorExpr)
	if !ok {
		return
	}
	t := r.typeOf(se)
	if t == nil {
		return
	}
	n, ok := t.(*types.Named)
	if !ok || n.Obj().Pkg() == nil || n.Obj().Name() != "RunningStepState" || !strings.HasSuffix(n.Obj().Pkg().Path(), "/internal/step") {
		return
	}
	r.insert(as.End(), fmt.Sprintf("; simrt.NoteState(%s, string(%s))", r.site(as, "state"), r.text(se)), 3)
}

func (r *rewriter) stmtYield(s ast.Stmt) {
	r.noteState(s)
	var n ast.Node
	switch x := s.(type) {
	case *ast.SendStmt:
		n = x
	case *ast.ExprStmt:
		n = r.exprNeedsYield(x.X)
	case *ast.AssignStmt:
		for _, e := range x.Rhs {
			if n == nil {
				n = r.exprNeedsYield(e)
			}
		}
	case *ast.DeclStmt:
		n = r.exprNeedsYield(x.Decl)
	case *ast.ReturnStmt:
		for _, e := range x.Results {
			if n == nil {
				n = r.exprNeedsYield(e)
			}
		}
	case *ast.IfStmt:
		if x.Init != nil {
			n = r.exprNeedsYield(x.Init)
		}
		if n == nil {
			n = r.exprNeedsYield(x.Cond)
		}
	case *ast.SwitchStmt:
		if x.Init != nil {
			n = r.exprNeedsYield(x.Init)
		}
		if n == nil && x.Tag != nil {
			n = r.exprNeedsYield(x.Tag)
		}
	case *ast.DeferStmt:
		// defer cancel() / defer wg.Wait() / defer close(ch): yield at the time the deferred call runs.
		if r.yieldCall(x.Call) {
			simple := false
			switch f := x.Call.Fun.(type) {
			case *ast.Ident:
				simple = true
			case *ast.SelectorExpr:
				_, simple = f.X.(*ast.Ident)
				if !simple {
					if se2, ok := f.X.(*ast.SelectorExpr); ok {
						_, simple = se2.X.(*ast.Ident)
					}
				}
			}
			allIdent := true
			for _, a := range x.Call.Args {
				if _, ok := a.(*ast.Ident); !ok {
					allIdent = false
				}
			}
			if simple && allIdent {
				r.replace(x.Call.Pos(), x.Call.End(), fmt.Sprintf("func() { simrt.Yield(%s); %s }()", r.site(x.Call, "yield"), r.text(x.Call)))
			}
		}
		return
	case *ast.RangeStmt:
		if t := r.typeOf(x.X); t != nil {
			if _, isChan := t.Underlying().(*types.Chan); isChan {
				// yield before every receive of the range loop
				r.insert(x.Body.Lbrace+1, fmt.Sprintf(" simrt.Yield(%s); ", r.site(x, "yield")), 2)
				n = x
			}
		}
	}
	if n != nil {
		r.insert(s.Pos(), fmt.Sprintf("simrt.Yield(%s); ", r.site(n, "yield")), 1)
	}
}

func (r *rewriter) rewriteSelect(s *ast.SelectStmt) {
	var pre, cases []string
	hasDefault := false
	idx := 0
	for _, cl := range s.Body.List {
		cc := cl.(*ast.CommClause)
		if cc.Comm == nil {
			hasDefault = true
			continue
		}
		bind := ""
		switch c := cc.Comm.(type) {
		case *ast.SendStmt:
			ch, v := r.fresh("c"), r.fresh("s")
			pre = append(pre, fmt.Sprintf("%s := %s", ch, r.text(c.Chan)))
			// the value keeps the channel's element type so untyped constants and interfaces convert as in Go
			pre = append(pre, fmt.Sprintf("%s := simrt.Conv(%s, %s)", v, ch, r.text(c.Value)))
			cases = append(cases, fmt.Sprintf("simrt.Send(%s, %s)", ch, v))
		case *ast.ExprStmt:
			u := unparen(c.X).(*ast.UnaryExpr)
			ch := r.fresh("c")
			pre = append(pre, fmt.Sprintf("%s := %s", ch, r.text(u.X)))
			cases = append(cases, fmt.Sprintf("simrt.RecvDiscard(%s)", ch))
		case *ast.AssignStmt:
			u := unparen(c.Rhs[0]).(*ast.UnaryExpr)
			ch, v, ok := r.fresh("c"), r.fresh("v"), r.fresh("ok")
			pre = append(pre, fmt.Sprintf("%s := %s", ch, r.text(u.X)))
			pre = append(pre, fmt.Sprintf("%s := simrt.Zero(%s); var %s bool; _, _ = %s, %s", v, ch, ok, v, ok))
			cases = append(cases, fmt.Sprintf("simrt.Recv(%s, &%s, &%s)", ch, v, ok))
			var lhs []string
			for _, l := range c.Lhs {
				lhs = append(lhs, r.text(l))
			}
			rhs := v
			if len(c.Lhs) == 2 {
				rhs += ", " + ok
			}
			bind = fmt.Sprintf(" %s %s %s;", strings.Join(lhs, ", "), c.Tok, rhs)
			if c.Tok == token.DEFINE {
				// keep "declared and not used" away when the body ignores a bound variable
				var use []string
				for _, l := range c.Lhs {
					if id, ok := l.(*ast.Ident); ok && id.Name != "_" {
						use = append(use, id.Name)
					}
				}
				if len(use) > 0 {
					bind += fmt.Sprintf(" _%s = %s;", strings.Repeat(", _", len(use)-1), strings.Join(use, ", "))
				}
			}
		}
		r.replace(cc.Pos(), cc.Colon+1, fmt.Sprintf("case %d:%s", idx, bind))
		idx++
	}
	hd := "false"
	if hasDefault {
		hd = "true"
	}
	head := "{ " + strings.Join(pre, "; ")
	if len(pre) > 0 {
		head += "; "
	}
	args := append([]string{r.site(s, "select"), hd}, cases...)
	head += "switch simrt.Select(" + strings.Join(args, ", ") + ") "
	r.replace(s.Pos(), s.Body.Lbrace, head)
	if !hasDefault {
		r.insert(s.Body.Rbrace, "default: panic(\"simrt: select index out of range\")\n", 0)
	}
	r.insert(s.End(), " }", 0)
}

func unparen(e ast.Expr) ast.Expr {
	for {
		p, ok := e.(*ast.ParenExpr)
		if !ok {
			return e
		}
		e = p.X
	}
}

func (r *rewriter) rewriteGo(g *ast.GoStmt) (descend bool) {
	if fl, ok := g.Call.Fun.(*ast.FuncLit); ok {
		if len(g.Call.Args) == 0 {
			r.replace(g.Pos(), fl.Pos(), fmt.Sprintf("simrt.Go(%s, ", r.site(g, "go")))
			r.replace(g.Call.Lparen, g.Call.Rparen+1, ")")
			return true
		}
		var pre, args []string
		for _, a := range g.Call.Args {
			t := r.fresh("a")
			pre = append(pre, fmt.Sprintf("%s := %s", t, r.text(a)))
			args = append(args, t)
		}
		ell := ""
		if g.Call.Ellipsis.IsValid() {
			ell = "..."
		}
		r.replace(g.Pos(), fl.Pos(), fmt.Sprintf("{ %s; simrt.Go(%s, func() { ", strings.Join(pre, "; "), r.site(g, "go")))
		r.replace(fl.End(), g.End(), fmt.Sprintf("(%s%s) }) }", strings.Join(args, ", "), ell))
		return true
	}
	f := r.fresh("f")
	pre := []string{fmt.Sprintf("%s := %s", f, r.text(g.Call.Fun))}
	var args []string
	for _, a := range g.Call.Args {
		t := r.fresh("a")
		pre = append(pre, fmt.Sprintf("%s := %s", t, r.text(a)))
		args = append(args, t)
	}
	ell := ""
	if g.Call.Ellipsis.IsValid() {
		ell = "..."
	}
	r.replace(g.Pos(), g.End(), fmt.Sprintf("{ %s; simrt.Go(%s, func() { %s(%s%s) }) }", strings.Join(pre, "; "), r.site(g, "go"), f, strings.Join(args, ", "), ell))
	return false
}

func (r *rewriter) rewriteRange(rs *ast.RangeStmt) bool {
	t := r.typeOf(rs.X)
	if t == nil {
		return false
	}
	if _, ok := t.Underlying().(*types.Map); !ok {
		return false
	}
	it := r.fresh("it")
	isBlank := func(e ast.Expr) bool {
		if e == nil {
			return true
		}
		id, ok := e.(*ast.Ident)
		return ok && id.Name == "_"
	}
	var lhs, rhs []string
	if !isBlank(rs.Key) {
		lhs, rhs = append(lhs, r.text(rs.Key)), append(rhs, it+".Key()")
	}
	if !isBlank(rs.Value) {
		lhs, rhs = append(lhs, r.text(rs.Value)), append(rhs, it+".Val()")
	}
	bind := ""
	if len(lhs) > 0 {
		bind = fmt.Sprintf(" %s %s %s;", strings.Join(lhs, ", "), rs.Tok, strings.Join(rhs, ", "))
		if rs.Tok == token.DEFINE {
			bind += fmt.Sprintf(" _%s = %s;", strings.Repeat(", _", len(lhs)-1), strings.Join(lhs, ", "))
		}
	}
	r.replace(rs.Pos(), rs.Body.Lbrace+1, fmt.Sprintf("for %s := simrt.Iter(%s, %s); %s.Next(); {%s {", it, r.site(rs, "range"), r.text(rs.X), it, bind))
	r.insert(rs.Body.Rbrace, "}\n", 0)
	return true
}

func (r *rewriter) walk(f *ast.File) {
	var visit func(n ast.Node) bool
	visit = func(n ast.Node) bool {
		switch x := n.(type) {
		case *ast.FuncDecl:
			name := x.Name.Name
			if x.Recv != nil && len(x.Recv.List) > 0 {
				name = r.text(x.Recv.List[0].Type) + "." + name
			}
			r.funcs = append(r.funcs, name)
			if x.Body != nil {
				ast.Inspect(x.Body, visit)
			}
			r.funcs = r.funcs[:len(r.funcs)-1]
			return false
		case *ast.CallExpr:
			if r.lockCall(x) {
				return false
			}
			if se, ok := x.Fun.(*ast.SelectorExpr); ok && se.Sel.Name == "MapKeys" && len(x.Args) == 0 {
				if t := r.typeOf(se.X); t != nil && isNamed(t, "reflect", "Value") {
					r.replace(x.Pos(), x.End(), fmt.Sprintf("simrt.MapKeys(%s, %s)", r.site(x, "mapkeys"), r.text(se.X)))
					return false
				}
			}
			if se, ok := x.Fun.(*ast.SelectorExpr); ok && se.Sel.Name == "ReadFile" && r.pkg.Name == "loadfile" {
				if id, ok := se.X.(*ast.Ident); ok {
					if pn, ok := r.pkg.TypesInfo.Uses[id].(*types.PkgName); ok && pn.Imported().Path() == "os" {
						// keep a use of package os so the import stays valid
						r.replace(x.Fun.Pos(), x.Lparen+1, fmt.Sprintf("simrt.ReadFile(os.ReadFile, %s, ", r.site(x, "readfile")))
						return true
					}
				}
			}
		case *ast.SelectStmt:
			r.rewriteSelect(x)
		case *ast.GoStmt:
			return r.rewriteGo(x)
		case *ast.RangeStmt:
			r.rewriteRange(x)
		case *ast.BlockStmt:
			for _, s := range x.List {
				r.stmtYield(s)
			}
		case *ast.CaseClause:
			for _, s := range x.Body {
				r.stmtYield(s)
			}
		case *ast.CommClause:
			for _, s := range x.Body {
				r.stmtYield(s)
			}
		}
		return true
	}
	ast.Inspect(f, visit)
}

func (r *rewriter) apply(f *ast.File) ([]byte, error) {
	if len(r.edits) == 0 {
		return nil, nil
	}
	r.edits = append(r.edits, edit{r.off(f.Name.End()), r.off(f.Name.End()), "\n\nimport simrt \"" + *simrtPath + "\"\n", 0})
	sort.SliceStable(r.edits, func(a, b int) bool {
		if r.edits[a].start != r.edits[b].start {
			return r.edits[a].start < r.edits[b].start
		}
		return r.edits[a].prio > r.edits[b].prio
	})
	var out []byte
	pos := 0
	for _, e := range r.edits {
		if e.start < pos {
			return nil, fmt.Errorf("overlapping edits at offset %d (%q)", e.start, e.text)
		}
		out = append(out, r.src[pos:e.start]...)
		out = append(out, e.text...)
		pos = e.end
	}
	out = append(out, r.src[pos:]...)
	res, err := format.Source(out)
	if err != nil {
		return nil, fmt.Errorf("rewritten file does not parse: %w", err)
	}
	return res, nil
}

func fail(f string, a ...any) {
	fmt.Fprintf(os.Stderr, "instr: "+f+"\n", a...)
	os.Exit(2)
}

func main() {
	flag.Parse()
	if *outDir == "" {
		fail("-out is required")
	}
	root, err := filepath.Abs(*repoDir)
	if err != nil {
		fail("%v", err)
	}
	if err := os.MkdirAll(*outDir, 0o755); err != nil {
		fail("%v", err)
	}
	cfg := &packages.Config{
		Mode: packages.NeedName | packages.NeedFiles | packages.NeedSyntax | packages.NeedTypes | packages.NeedTypesInfo | packages.NeedImports | packages.NeedDeps | packages.NeedModule,
		Dir:  root,
		Env:  append(os.Environ(), "GOFLAGS=-mod=mod", "GOPROXY=off", "GOSUMDB=off"),
	}
	pkgs, err := packages.Load(cfg, "./...")
	if err != nil {
		fail("load: %v", err)
	}
	overlay := map[string]string{}
	var sites []siteRec
	total := map[string]int{}
	for _, p := range pkgs {
		if len(p.Errors) > 0 {
			fail("package %s: %v", p.PkgPath, p.Errors)
		}
		if strings.Contains(p.PkgPath, "/cmd/") || !strings.HasPrefix(p.PkgPath, *modPath) {
			continue
		}
		for _, f := range p.Syntax {
			tf := p.Fset.File(f.Pos())
			if !strings.HasPrefix(tf.Name(), root+"/") {
				continue
			}
			src, err := os.ReadFile(tf.Name())
			if err != nil {
				fail("%v", err)
			}
			r := &rewriter{pkg: p, fset: p.Fset, file: tf, src: src, counts: total, sites: &sites, root: root}
			r.walk(f)
			res, err := r.apply(f)
			if err != nil {
				fail("%s: %v", tf.Name(), err)
			}
			if res == nil {
				continue
			}
			dst := filepath.Join(*outDir, strings.ReplaceAll(strings.TrimPrefix(tf.Name(), root+"/"), "/", "__"))
			if err := os.WriteFile(dst, res, 0o644); err != nil {
				fail("%v", err)
			}
			overlay[tf.Name()] = dst
		}
	}
	b, _ := json.MarshalIndent(map[string]any{"Replace": overlay}, "", " ")
	if err := os.WriteFile(filepath.Join(*outDir, "overlay.json"), b, 0o644); err != nil {
		fail("%v", err)
	}
	sort.Slice(sites, func(a, b int) bool { return sites[a].Site < sites[b].Site })
	sb, _ := json.MarshalIndent(map[string]any{"counts": total, "sites": sites}, "", " ")
	if err := os.WriteFile(filepath.Join(*outDir, "sites.json"), sb, 0o644); err != nil {
		fail("%v", err)
	}
	fmt.Printf("instr: files=%d sites=%v\n", len(overlay), total)
}
