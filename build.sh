#!/bin/bash
# Build the instrumenter (if needed), instrument /repo's working tree into a scratch overlay and
# build the simulation test binary. Exit 2 on any failure (never a property violation).
# usage: build.sh [-race] <output-binary>
set -u
RACE=""
if [ "${1:-}" = "-race" ]; then RACE="-race"; shift; fi
OUT="$(realpath -m "${1:?output binary}")"
export GOFLAGS=-mod=mod GOPROXY=off GOSUMDB=off GOTOOLCHAIN=local CGO_ENABLED=${CGO_ENABLED:-1}
REPO="${VERIF_REPO:-/repo}"
HERE="$(cd "$(dirname "$0")" && pwd)"
BIN="$HERE/.bin"
mkdir -p "$BIN"
if [ ! -x "$BIN/instr" ] || [ "$HERE/instr/main.go" -nt "$BIN/instr" ]; then
  (cd "$HERE/instr" && go1.26.8 build -o "$BIN/instr" .) || { echo "build.sh: cannot build instr" >&2; exit 2; }
fi
SCRATCH="$(mktemp -d "${TMPDIR:-/tmp}/verif-ovl.XXXXXX")"
trap 'rm -rf "$SCRATCH"' EXIT
"$BIN/instr" -repo "$REPO" -out "$SCRATCH" >"$SCRATCH/instr.log" 2>&1 || { cat "$SCRATCH/instr.log" >&2; echo "build.sh: instrumentation failed" >&2; exit 2; }
cp "$SCRATCH/sites.json" "$OUT.sites.json"
cp "$SCRATCH/sites.json" "$BIN/sites.json.$$" && mv "$BIN/sites.json.$$" "$BIN/sites.json"
cd "$HERE/sim" || exit 2
# the harness module resolves the engine through a replace directive
if [ "$REPO" != "/repo" ]; then
  MODFILE="$SCRATCH/go.mod"; sed "s#=> /repo#=> $REPO#" go.mod > "$MODFILE"; cp go.sum "$SCRATCH/go.sum"
  MF="-modfile=$MODFILE"
else
  MF=""
fi
go1.26.8 test $MF $RACE -c -overlay "$SCRATCH/overlay.json" -o "$OUT" ./check >"$SCRATCH/build.log" 2>&1 || { cat "$SCRATCH/build.log" >&2; echo "build.sh: build failed" >&2; exit 2; }
exit 0
