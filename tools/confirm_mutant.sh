#!/bin/bash
# usage: confirm_mutant.sh <dir with patch.diff and demo_test.go>
# Confirms a seeded change in a fresh scratch worktree: it compiles, the existing suite passes with
# it, the demonstration fails with it and passes without it. Prints a verdict line; removes the worktree.
set -u
OUT="$(realpath "$1")"
export GOFLAGS=-mod=mod GOPROXY=off GOSUMDB=off GOTOOLCHAIN=local
WT=$(mktemp -d /tmp/confirm.XXXXXX); rmdir "$WT"
git -C /repo worktree add -q --detach "$WT" HEAD || exit 2
trap 'git -C /repo worktree remove --force "$WT"' EXIT
cd "$WT"
git apply "$OUT/patch.diff" || { echo "CONFIRM patch does not apply"; exit 1; }
go build ./... || { echo "CONFIRM does not compile"; exit 1; }
suite=$(go test -vet=off -count=1 ./workflow/ ./internal/... ./loadfile/ ./config/ 2>&1 | grep -E '^(FAIL|--- FAIL|panic)' | head -5)
if [ -n "$suite" ]; then
  # timing-based tests of ./workflow fail sporadically on a loaded machine with or without any change:
  # a test counts as failing only if it fails five times in a row when run alone
  real=""
  for tn in $(echo "$suite" | grep -o -- '--- FAIL: [A-Za-z0-9_]*' | sed 's/--- FAIL: //' | sort -u); do
    okonce=0
    for k in 1 2 3 4 5; do
      if go test -vet=off -count=1 -run "^$tn\$" ./workflow/ ./internal/... ./loadfile/ ./config/ >/dev/null 2>&1; then okonce=1; break; fi
    done
    [ $okonce = 0 ] && real="$real $tn"
  done
  if [ -n "$real" ] || ! echo "$suite" | grep -q -- '--- FAIL'; then echo "CONFIRM suite fails with the change: $suite ($real)"; exit 1; fi
  echo "CONFIRM note: sporadic failures under load, passing when rerun alone: $(echo "$suite" | grep -o -- '--- FAIL: [A-Za-z0-9_]*' | tr '\n' ' ')"
fi
place=$(head -5 "$OUT/demo_test.go" | grep -o 'place in: *[^ ]*' | head -1 | sed 's/place in: *//')
place=${place%/}
[ -z "$place" ] && { echo "CONFIRM cannot find 'place in:' in demo_test.go"; exit 1; }
cp "$OUT/demo_test.go" "$place/zz_demo_test.go"
tests=$(grep -o '^func Test[A-Za-z0-9_]*' "$place/zz_demo_test.go" | sed 's/func //' | paste -sd'|')
with=$(go test -vet=off -count=1 -run "^($tests)\$" ./$place/ 2>&1 | grep -E '^(ok|FAIL|--- FAIL|panic)' | head -8 | tr '\n' ' ')
git apply -R "$OUT/patch.diff"
without=$(go test -vet=off -count=1 -run "^($tests)\$" ./$place/ 2>&1 | grep -E '^(ok|FAIL|--- FAIL|panic)' | head -8 | tr '\n' ' ')
echo "CONFIRM tests=$tests"
echo "  with change   : $with"
echo "  without change: $without"
case "$with" in *FAIL*|*panic*) w=1;; *) w=0;; esac
case "$without" in *FAIL*|*panic*) wo=1;; *) wo=0;; esac
if [ $w = 1 ] && [ $wo = 0 ]; then echo "CONFIRM OK"; else echo "CONFIRM NOT-CONFIRMED"; exit 1; fi
