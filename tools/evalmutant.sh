#!/bin/bash
# usage: evalmutant.sh <patch.diff> <prop> [<prop>...]
# Runs the given checks (tier $TIER, default quick) against the engine with the patch applied.
# Default: applies the patch to /repo's working tree and reverts it afterwards (as the task
# prescribes). With EVAL_WORKTREE=1 a scratch worktree under /tmp is used instead, so that /repo is
# not disturbed while a background run is reading it.
set -u
PATCH="$(realpath "$1")"; shift
SCR=$(mktemp -d /tmp/evalmut-out.XXXXXX)
if [ "${EVAL_WORKTREE:-0}" = "1" ]; then
  WT=$(mktemp -d /tmp/evalmut.XXXXXX); rmdir "$WT"
  git -C /repo worktree add -q --detach "$WT" HEAD || exit 2
  trap 'git -C /repo worktree remove --force "$WT"; rm -rf "$SCR"' EXIT
  # a patch written before later repairs of the same function is merged three-way
  git -C "$WT" apply "$PATCH" 2>/dev/null || git -C "$WT" apply --3way "$PATCH" >/dev/null 2>&1 || { echo "evalmutant: patch does not apply" >&2; exit 2; }
  if git -C "$WT" diff --name-only --diff-filter=U | grep -q .; then echo "evalmutant: patch conflicts with the current tree" >&2; exit 2; fi
  export VERIF_REPO="$WT"
else
  cd /repo || exit 2
  if ! git diff --quiet; then echo "evalmutant: /repo working tree is not clean" >&2; exit 2; fi
  git apply "$PATCH" || { echo "evalmutant: patch does not apply" >&2; exit 2; }
  trap 'git -C /repo checkout -- .; rm -rf "$SCR"' EXIT
fi
cd /verif
export VERIF_EVIDENCE_DIR=$SCR/evidence VERIF_REPLAYS_DIR=$SCR/replays
mkdir -p $VERIF_EVIDENCE_DIR
for p in "$@"; do
  rm -rf $SCR/replays
  out=$(VERIF_SEED=${VERIF_SEED:-1} ./check $p ${TIER:-quick} 2>&1); rc=$?
  first=$(echo "$out" | grep -A1 '^VIOLATION' | sed -n 2p | cut -c1-220)
  echo "$p rc=$rc $(echo "$out" | grep '^check ' | sed 's/^check [^:]*: //' | cut -c1-70) | $first"
  if [ $rc -eq 2 ]; then echo "$out" | grep -v 'error while sending' | tail -4 | cut -c1-300; fi
done
