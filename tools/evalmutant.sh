#!/bin/bash
# usage: evalmutant.sh <patch.diff> <prop> [<prop>...]
# Applies the patch to /repo's working tree, runs the quick tier of the given checks, and reverts.
# Prints one line per check: <prop> rc=<0|1|2> <first violation rule/shape or summary>
set -u
PATCH="$1"; shift
cd /repo || exit 2
if ! git diff --quiet; then echo "evalmutant: /repo working tree is not clean" >&2; exit 2; fi
git apply "$PATCH" || { echo "evalmutant: patch does not apply" >&2; exit 2; }
trap 'git -C /repo checkout -- . ; git -C /repo clean -fdq -- . 2>/dev/null' EXIT
cd /verif
for p in "$@"; do
  rm -rf /verif/replays
  out=$(VERIF_SEED=${VERIF_SEED:-1} ./check $p ${TIER:-quick} 2>&1); rc=$?
  first=$(echo "$out" | grep -A1 '^VIOLATION' | tail -1 | cut -c1-220)
  echo "$p rc=$rc $(echo "$out" | grep '^check ' | sed 's/.*: //' | cut -c1-80) | $first"
  if [ $rc -eq 2 ]; then echo "$out" | grep -v 'error while sending' | tail -4 | cut -c1-300; fi
done
