#!/bin/bash
# usage: reeval_seeded.sh [<id>...]
# Re-runs, for every seeded change (or the given ones), the checks its meta.json records as catching it,
# in scratch-worktree mode, and prints whether each still does. Sensitivity regression after the
# machinery or /repo has changed.
cd /verif
ids="$@"; [ -z "$ids" ] && ids=$(ls seeded | grep -v RESULTS)
for id in $ids; do
  d=seeded/$id
  [ -f $d/meta.json ] || continue
  checks=$(python3 -c "
import json,sys
m=json.load(open('$d/meta.json'))
print(' '.join(k for k,v in m.get('checks_run',{}).items() if str(v).startswith('caught')))")
  if [ -z "$checks" ]; then echo "$id: no catching check recorded"; continue; fi
  for c in $checks; do
    line=$(EVAL_WORKTREE=1 tools/evalmutant.sh $d/patch.diff $c 2>&1 | head -1)
    case "$line" in *"rc=1"*) echo "$id $c STILL-CAUGHT | ${line#* | }" | cut -c1-200;; *) echo "$id $c NOT-CAUGHT $line" | cut -c1-300;; esac
  done
done
